# setup: build the simulation workers (plain, asan, small-read-batch) from files on disk. Offline.
all:
	python3 bin/vcheck --build-all
clean:
	rm -rf build
.PHONY: all clean
