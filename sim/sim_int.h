#ifndef LCBSIM_SIM_INT_H
#define LCBSIM_SIM_INT_H

#define _GNU_SOURCE 1
#include <ucontext.h>
#include <signal.h>
#include "sim.h"

typedef enum { FB_FREE = 0, FB_READY, FB_BLOCKED, FB_IDLEWAIT, FB_DONE } fb_state_t;

typedef struct fiber {
	int          id;
	fb_state_t   st;
	void        *sp;            /* saved stack pointer (own context switch: no signal-mask system calls) */
	unsigned char *stack;       /* usable area (above the guard page) */
	size_t       stack_sz;
	int          stack_slot;
	void      *(*fn)(void *);
	void        *arg;
	void        *ret;
	char         name[24];
	int          is_pool;       /* created via pthread_create seam */
	sim_pred_fn  pred;
	void        *pred_arg;
	uint64_t     wake_at;       /* 0 = none */
	int          block_epfd;    /* >=0: parked in epoll_wait on this fd */
	int          ep_ready;      /* cached readiness */
	int          saved_errno;
	unsigned     tls_key[SIM_MAX_KEYS];   /* thread-specific data: a few (key, value) pairs; keys themselves are unbounded */
	void        *tls[SIM_MAX_KEYS];
	int          cur_op;
	int          joined;
	int          join_target;   /* fiber this one waits for, -1 none */
	uint32_t     prio;          /* PCT */
	const char  *last_site;
	int          yieldy;        /* last site was sched_yield / nanosleep / spin */
	int          spinning;      /* parked at a sched_yield: burns time, makes no progress by itself */
	void        *asan_fake;
	int          revoked;
	int          qwrite_fail;   /* failed queue writes issued by this fiber */
	int          qwrite_fail_errno;
} fiber_t;

typedef struct timed_ev { uint64_t at; uint64_t seq; sim_timed_fn fn; void *arg; } timed_ev_t;

#define SIM_MAX_TIMERS   64
#define SIM_MAX_CHILDREN 16
#define SIM_MAX_TIMED    256
#define SIM_MAX_PROBES   160
#define SIM_MAX_FAULTS   (PLAN_MAX_FAULTS * 64)
#define SIM_MAX_MUTEX    64

typedef struct sim_child { int pid; uint64_t exit_at; int status; int exited; int reaped; int pidfd; } sim_child_t;

typedef struct sim_fault_rec {
	int op;              /* -1 = any op */
	char site[PLAN_KEYLEN];
	int nth;             /* fires on the nth call (1-based) of this site attributed to op; with count>1 fires for nth..nth+count-1 */
	int count;
	int err;
	int fired;
} sim_fault_rec_t;

typedef struct probe { const char *name; uint64_t n; } probe_t;

typedef struct sim_state {
	const plan_t *plan;
	fiber_t   fb[SIM_MAX_FIBERS];
	int       nfb;
	int       cur;               /* running fiber or -1 (main ctx) */
	int       root;
	void     *main_sp;
	int       in_loop;

	/* schedule */
	int       policy;
	rng_t     rng;
	unsigned  p_permille;
	int       pct_d;
	uint64_t  pct_points[8];
	uint32_t  pct_low;
	uint64_t  budget;
	uint64_t  step_ns;
	uint64_t  spin_real_steps;   /* spinners really spin (no clock jump) while the next event is at most this many steps away */
	uint64_t  step;
	uint64_t  ndecision;
	int       consec;
	int       fair;

	/* decisions taken */
	short    *dec_taken;
	int       ndec_taken, dec_cap;

	/* time */
	uint64_t  now;
	int64_t   rt_offset;
	uint64_t  evseq;
	timed_ev_t timed[SIM_MAX_TIMED];
	int       ntimed;
	uint64_t  timed_seq;

	sim_timer_rec_t timers[SIM_MAX_TIMERS];
	int       ntimers;
	sim_child_t children[SIM_MAX_CHILDREN];
	int       nchildren;

	/* fd ledger */
	sim_fd_rec_t fds[SIM_MAX_FD];
	int       fd_ord_next;
	uint64_t  fd_gen, fd_gen_polled;
	int       ep_membership_dirty;

	/* faults */
	sim_fault_rec_t faults[SIM_MAX_FAULTS];
	int       nfaults;
	int       op_site_cnt_n;
	struct { int op; char site[PLAN_KEYLEN]; int cnt; } op_site_cnt[512];
	int       faults_pending_hint;
	int       failable_calls;

	/* threads */
	int       pool_created, pool_finished, pool_joined;
	int       nkeys;

	/* result */
	int       violated;
	char      vclass[48];
	char      detail[400];
	char      vsite[48];
	char      ctx_tag[128];
	int       deferred;
	char      dclass[48];
	char      ddetail[400];
	uint64_t  vtime;
	uint64_t  hash;
	int       interesting;
	int       inconclusive;
	uint64_t  switches;

	probe_t   probes[SIM_MAX_PROBES];
	int       nprobes;
} sim_state_t;

extern sim_state_t S;

/* internal */
void sim_seams_begin(void);
void sim_seams_end(void);
void sim_alloc_reset(void);       /* frees all live ledger allocations */
void sim_timers_fire_due(void);
uint64_t sim_timers_next(void);   /* UINT64_MAX if none */
void sim_children_fire_due(void);
uint64_t sim_children_next(void);
int  sim_new_pool_fiber(void *(*fn)(void *), void *arg);
void sim_fiber_exit_hook(fiber_t *f);
const char *sim_cur_site(void);

#endif
