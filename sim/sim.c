/* lcbsim core: rng, fibers, scheduler, clock, violations, probes. */
#include "sim_int.h"
#include <stdio.h>
#include <stdlib.h>
#include <string.h>
#include <errno.h>
#include <unistd.h>
#include <poll.h>
#include <sys/mman.h>
#include <signal.h>
#include <sys/time.h>

#if defined(__has_feature)
#  if __has_feature(address_sanitizer)
#    define SIM_ASAN 1
#  endif
#endif
#if defined(__SANITIZE_ADDRESS__)
#  define SIM_ASAN 1
#endif
#ifdef SIM_ASAN
void __sanitizer_start_switch_fiber(void **fake_stack_save, const void *bottom, size_t size);
void __sanitizer_finish_switch_fiber(void *fake_stack_save, const void **bottom_old, size_t *size_old);
void __asan_unpoison_memory_region(void const volatile *addr, size_t size);
#endif

sim_state_t S;
int sim_trace_on = 0;
sim_knobs_t sim_knobs = { 0, 4, 1024, 0, 0 };
void (*sim_on_close_hook)(int fd, int kind) = NULL;
void (*sim_on_pipe_io_hook)(int fd, int is_write, const void *buf, ssize_t n) = NULL;
void (*sim_on_epoll_ctl_hook)(int epfd, int op, int fd, uint32_t events, int ret, int err) = NULL;

/* ================================================================= rng */
uint64_t splitmix64(uint64_t *x) {
	uint64_t z = (*x += 0x9e3779b97f4a7c15ULL);
	z = (z ^ (z >> 30)) * 0xbf58476d1ce4e5b9ULL;
	z = (z ^ (z >> 27)) * 0x94d049bb133111ebULL;
	return z ^ (z >> 31);
}
void rng_seed(rng_t *r, uint64_t seed) {
	uint64_t x = seed;
	for (int i = 0; i < 4; i++) r->s[i] = splitmix64(&x);
}
static inline uint64_t rotl(uint64_t x, int k) { return (x << k) | (x >> (64 - k)); }
uint64_t rng_next(rng_t *r) {
	uint64_t *s = r->s;
	uint64_t result = rotl(s[1] * 5, 7) * 9, t = s[1] << 17;
	s[2] ^= s[0]; s[3] ^= s[1]; s[1] ^= s[2]; s[0] ^= s[3]; s[2] ^= t; s[3] = rotl(s[3], 45);
	return result;
}
uint64_t rng_below(rng_t *r, uint64_t n) { if (n <= 1) return 0; return rng_next(r) % n; }
int64_t rng_range(rng_t *r, int64_t lo, int64_t hi) { if (hi <= lo) return lo; return lo + (int64_t)rng_below(r, (uint64_t)(hi - lo) + 1); }
int rng_chance(rng_t *r, unsigned permille) { return rng_below(r, 1000) < permille; }

/* ================================================================= plan */
void plan_init(plan_t *p) { memset(p, 0, sizeof(*p)); }
void plan_free(plan_t *p) { free(p->dec); p->dec = NULL; p->ndec = p->dec_cap = 0; }
long long item_get(const item_t *it, const char *key, long long def) {
	for (int i = 0; i < it->nkv; i++) if (0 == strcmp(it->kv[i].key, key)) return it->kv[i].val;
	return def;
}
int item_has(const item_t *it, const char *key) {
	for (int i = 0; i < it->nkv; i++) if (0 == strcmp(it->kv[i].key, key)) return 1;
	return 0;
}
void item_set(item_t *it, const char *key, long long val) {
	for (int i = 0; i < it->nkv; i++) if (0 == strcmp(it->kv[i].key, key)) { it->kv[i].val = val; return; }
	if (it->nkv >= PLAN_MAX_KV) { fprintf(stderr, "plan: too many keys in item %s\n", it->kind); abort(); }
	snprintf(it->kv[it->nkv].key, PLAN_KEYLEN, "%s", key);
	it->kv[it->nkv].val = val;
	it->nkv++;
}
void item_kind(item_t *it, const char *kind) { snprintf(it->kind, PLAN_KEYLEN, "%s", kind); }
op_t *plan_add_op(plan_t *p, const char *kind) {
	if (p->nops >= PLAN_MAX_OPS) { fprintf(stderr, "plan: too many ops\n"); abort(); }
	op_t *op = &p->ops[p->nops++];
	memset(op, 0, sizeof(*op));
	item_kind(&op->it, kind);
	return op;
}
item_t *op_add_fault(op_t *op, const char *kind) {
	if (op->nfaults >= PLAN_MAX_FAULTS) return NULL;
	item_t *f = &op->faults[op->nfaults++];
	memset(f, 0, sizeof(*f));
	item_kind(f, kind);
	return f;
}
static void item_print(FILE *f, const char *tag, const item_t *it) {
	fprintf(f, "%s", tag);
	if (it->kind[0]) fprintf(f, " %s", it->kind);
	for (int i = 0; i < it->nkv; i++) fprintf(f, " %s=%lld", it->kv[i].key, it->kv[i].val);
	fputc('\n', f);
}
void plan_print(const plan_t *p, void *file, int with_dec) {
	FILE *f = file;
	fprintf(f, "plan %s\nseed %llu\n", p->prop, (unsigned long long)p->seed);
	item_print(f, "cfg", &p->cfg);
	item_print(f, "sched", &p->sched);
	for (int i = 0; i < p->nops; i++) {
		item_print(f, "op", &p->ops[i].it);
		for (int j = 0; j < p->ops[i].nfaults; j++) item_print(f, "fault", &p->ops[i].faults[j]);
	}
	if (with_dec && p->ndec > 0) {
		for (int i = 0; i < p->ndec; i++) {
			if (0 == (i % 32)) fprintf(f, "%sdec", i ? "\n" : "");
			fprintf(f, " %d", p->dec[i]);
		}
		fputc('\n', f);
	}
	fprintf(f, "end\n");
}
static int item_parse(item_t *it, char *s, int has_kind) {
	memset(it, 0, sizeof(*it));
	char *save = NULL, *tok = strtok_r(s, " \t\r\n", &save);
	if (has_kind) {
		if (tok && NULL == strchr(tok, '=')) { item_kind(it, tok); tok = strtok_r(NULL, " \t\r\n", &save); }
	}
	for (; tok; tok = strtok_r(NULL, " \t\r\n", &save)) {
		char *eq = strchr(tok, '=');
		if (!eq) return -1;
		*eq = 0;
		item_set(it, tok, strtoll(eq + 1, NULL, 10));
	}
	return 0;
}
int plan_parse(plan_t *p, void *file) {
	FILE *f = file;
	char line[8192];
	int seen = 0;
	plan_free(p);
	plan_init(p);
	while (fgets(line, sizeof(line), f)) {
		char *s = line;
		while (*s == ' ' || *s == '\t') s++;
		if (*s == '#' || *s == '\n' || *s == 0) continue;
		if (0 == strncmp(s, "end", 3)) return seen ? 0 : -1;
		seen = 1;
		if (0 == strncmp(s, "plan ", 5)) { sscanf(s + 5, "%7s", p->prop); }
		else if (0 == strncmp(s, "seed ", 5)) { p->seed = strtoull(s + 5, NULL, 10); }
		else if (0 == strncmp(s, "cfg", 3)) { if (item_parse(&p->cfg, s + 3, 0)) return -1; }
		else if (0 == strncmp(s, "sched", 5)) { if (item_parse(&p->sched, s + 5, 0)) return -1; }
		else if (0 == strncmp(s, "op ", 3)) {
			if (p->nops >= PLAN_MAX_OPS) return -1;
			op_t *op = &p->ops[p->nops++];
			memset(op, 0, sizeof(*op));
			if (item_parse(&op->it, s + 3, 1)) return -1;
		} else if (0 == strncmp(s, "fault ", 6)) {
			if (p->nops == 0) return -1;
			op_t *op = &p->ops[p->nops - 1];
			if (op->nfaults >= PLAN_MAX_FAULTS) return -1;
			if (item_parse(&op->faults[op->nfaults++], s + 6, 1)) return -1;
		} else if (0 == strncmp(s, "dec", 3)) {
			char *save = NULL, *tok = strtok_r(s + 3, " \t\r\n", &save);
			for (; tok; tok = strtok_r(NULL, " \t\r\n", &save)) {
				if (p->ndec >= p->dec_cap) {
					p->dec_cap = p->dec_cap ? p->dec_cap * 2 : 1024;
					p->dec = realloc(p->dec, sizeof(short) * (size_t)p->dec_cap);
				}
				p->dec[p->ndec++] = (short)atoi(tok);
			}
		} else return -1;
	}
	return seen ? -1 : 1;
}

/* ================================================================= context switch
 * x86-64 SysV: save the callee-saved registers on the current stack, store the stack pointer, load the other one.
 * (swapcontext() costs two rt_sigprocmask system calls per switch; the simulation switches ~10^6 times a second.) */
#if !defined(__x86_64__)
#  error "lcbsim's context switch is written for x86-64"
#endif
void lcb_switch(void **save_sp, void *new_sp);
__asm__(
	".text\n"
	".globl lcb_switch\n"
	".type lcb_switch,@function\n"
	"lcb_switch:\n"
	"	pushq %rbp\n"
	"	pushq %rbx\n"
	"	pushq %r12\n"
	"	pushq %r13\n"
	"	pushq %r14\n"
	"	pushq %r15\n"
	"	subq $8, %rsp\n"
	"	stmxcsr (%rsp)\n"
	"	fnstcw 4(%rsp)\n"
	"	movq %rsp, (%rdi)\n"
	"	movq %rsi, %rsp\n"
	"	ldmxcsr (%rsp)\n"
	"	fldcw 4(%rsp)\n"
	"	addq $8, %rsp\n"
	"	popq %r15\n"
	"	popq %r14\n"
	"	popq %r13\n"
	"	popq %r12\n"
	"	popq %rbx\n"
	"	popq %rbp\n"
	"	ret\n"
	".size lcb_switch,.-lcb_switch\n"
);

/* ================================================================= stacks */
#define STACK_SZ   (1024u * 1024u)
#define GUARD_SZ   (64u * 1024u)
#define MAX_STACKS 128
static struct { unsigned char *base; int in_use; int revoked; } g_stacks[MAX_STACKS];

static int stack_get(void) {
	for (int i = 0; i < MAX_STACKS; i++) {
		if (g_stacks[i].in_use) continue;
		if (!g_stacks[i].base) {
			unsigned char *m = mmap(NULL, STACK_SZ + GUARD_SZ, PROT_READ | PROT_WRITE,
			    MAP_PRIVATE | MAP_ANONYMOUS | MAP_NORESERVE, -1, 0);
			if (m == MAP_FAILED) { perror("mmap stack"); abort(); }
			mprotect(m, GUARD_SZ, PROT_NONE);
			g_stacks[i].base = m;
		}
		g_stacks[i].in_use = 1;
		return i;
	}
	fprintf(stderr, "lcbsim: out of stacks\n");
	abort();
}
static void stack_revoke(int slot) {
	if (g_stacks[slot].revoked) return;
	mprotect(g_stacks[slot].base + GUARD_SZ, STACK_SZ, PROT_NONE);
	g_stacks[slot].revoked = 1;
}
static void stack_put(int slot) {
	if (g_stacks[slot].revoked) {
		mprotect(g_stacks[slot].base + GUARD_SZ, STACK_SZ, PROT_READ | PROT_WRITE);
		g_stacks[slot].revoked = 0;
	}
#ifdef SIM_ASAN
	__asan_unpoison_memory_region(g_stacks[slot].base + GUARD_SZ, STACK_SZ);
#endif
	g_stacks[slot].in_use = 0;
}
/* returns slot of a revoked/guard stack containing addr, or -1 */
static int stack_find_revoked(const void *addr, int *is_guard) {
	const unsigned char *a = addr;
	for (int i = 0; i < MAX_STACKS; i++) {
		if (!g_stacks[i].base) continue;
		if (a >= g_stacks[i].base && a < g_stacks[i].base + GUARD_SZ + STACK_SZ) {
			*is_guard = (a < g_stacks[i].base + GUARD_SZ);
			if (*is_guard || g_stacks[i].revoked) return i;
			return -1;
		}
	}
	return -1;
}

/* ================================================================= hashing / log */
static inline void hmix(uint64_t v) {
	S.hash ^= v + 0x9e3779b97f4a7c15ULL + (S.hash << 6) + (S.hash >> 2);
	S.hash *= 0x100000001b3ULL;
}
void sim_hash_u64(uint64_t v) { hmix(v); }
static uint64_t str_hash(const char *s) {
	uint64_t h = 1469598103934665603ULL;
	for (; *s; s++) { h ^= (unsigned char)*s; h *= 1099511628211ULL; }
	return h;
}
void sim_log(const char *fmt, ...) {
	if (!sim_trace_on) return;
	va_list ap;
	int e = errno;
	fprintf(stderr, "[t=%llu s=%llu f=%d] ", (unsigned long long)S.now, (unsigned long long)S.step, S.cur);
	va_start(ap, fmt);
	vfprintf(stderr, fmt, ap);
	va_end(ap);
	fputc('\n', stderr);
	errno = e;
}

/* ================================================================= probes */
void sim_probe_add(const char *name, uint64_t n) {
	for (int i = 0; i < S.nprobes; i++)
		if (S.probes[i].name == name || 0 == strcmp(S.probes[i].name, name)) { S.probes[i].n += n; return; }
	if (S.nprobes < SIM_MAX_PROBES) { S.probes[S.nprobes].name = name; S.probes[S.nprobes].n = n; S.nprobes++; }
}
void sim_probe(const char *name) { sim_probe_add(name, 1); }

/* ================================================================= violations */
static void switch_to_main(void);

void sim_violation(const char *cls, const char *fmt, ...) {
	if (!S.violated) {
		va_list ap;
		S.violated = 1;
		snprintf(S.vclass, sizeof(S.vclass), "%s", cls);
		va_start(ap, fmt);
		vsnprintf(S.detail, sizeof(S.detail), fmt, ap);
		va_end(ap);
		if (S.ctx_tag[0]) { size_t l = strlen(S.detail); snprintf(S.detail + l, sizeof(S.detail) - l, " [ctx: %s]", S.ctx_tag); }
		snprintf(S.vsite, sizeof(S.vsite), "%s", sim_cur_site());
		S.vtime = S.now;
		if (sim_trace_on) fprintf(stderr, "[t=%llu s=%llu f=%d] VIOLATION %s: %s\n",
		    (unsigned long long)S.now, (unsigned long long)S.step, S.cur, S.vclass, S.detail);
	}
	if (S.cur >= 0 && S.in_loop) {
		switch_to_main(); /* never resumed */
		abort();
	}
}
void sim_violation_deferred(const char *cls, const char *fmt, ...) {
	/* a deviation that must not stop the run (so that it cannot hide other oracles): reported at the end of the run
	 * if nothing else was violated */
	va_list ap;
	if (S.deferred) return;
	S.deferred = 1;
	snprintf(S.dclass, sizeof(S.dclass), "%s", cls);
	va_start(ap, fmt);
	vsnprintf(S.ddetail, sizeof(S.ddetail), fmt, ap);
	va_end(ap);
	if (S.ctx_tag[0]) { size_t l = strlen(S.ddetail); snprintf(S.ddetail + l, sizeof(S.ddetail) - l, " [ctx: %s]", S.ctx_tag); }
	if (sim_trace_on) fprintf(stderr, "[t=%llu s=%llu f=%d] DEFERRED %s: %s\n", (unsigned long long)S.now, (unsigned long long)S.step, S.cur, S.dclass, S.ddetail);
}
int sim_violated(void) { return S.violated; }
/* fair-finish: from now on strict round-robin among the runnable fibers. Liveness ("it fires / is delivered once
 * the faults stopped") may only be judged under a fair scheduler: a PCT priority order can starve a thread for ever */
void sim_fair_finish(void) { if (!S.fair) { S.fair = 1; sim_probe("sched.fair_finish_requested"); } }
/* tags accumulate ("a+b"): a run can meet the preconditions of more than one known finding */
void sim_set_context_tag(const char *tag) {
	size_t l;
	if (!tag || !tag[0]) { S.ctx_tag[0] = 0; return; }
	if (strstr(S.ctx_tag, tag)) return;
	l = strlen(S.ctx_tag);
	snprintf(S.ctx_tag + l, sizeof(S.ctx_tag) - l, "%s%s", l ? "+" : "", tag);
}
const char *sim_cur_site(void) {
	if (S.cur >= 0 && S.fb[S.cur].last_site) return S.fb[S.cur].last_site;
	return "-";
}

/* ================================================================= fibers */
static void fiber_trampoline(void) {
	fiber_t *f = &S.fb[S.cur];
#ifdef SIM_ASAN
	__sanitizer_finish_switch_fiber(NULL, NULL, NULL);
#endif
	f->ret = f->fn(f->arg);
	f->st = FB_DONE;
	sim_fiber_exit_hook(f);
	sim_log("fiber %d (%s) finished", f->id, f->name);
#ifdef SIM_ASAN
	__sanitizer_start_switch_fiber(NULL, NULL, 0); /* fiber is dying */
#endif
	lcb_switch(&f->sp, S.main_sp);
	abort();
}

static int fiber_new(void *(*fn)(void *), void *arg, const char *name, int is_pool) {
	if (S.nfb >= SIM_MAX_FIBERS) { sim_violation("sim-limit", "too many fibers"); return -1; }
	fiber_t *f = &S.fb[S.nfb];
	memset(f, 0, sizeof(*f));
	f->id = S.nfb++;
	f->st = FB_READY;
	f->fn = fn; f->arg = arg;
	snprintf(f->name, sizeof(f->name), "%s", name ? name : "fiber");
	f->is_pool = is_pool;
	f->block_epfd = -1;
	f->join_target = -1;
	f->cur_op = -1;
	f->stack_slot = stack_get();
	f->stack = g_stacks[f->stack_slot].base + GUARD_SZ;
	f->stack_sz = STACK_SZ;
	f->prio = (uint32_t)(rng_next(&S.rng) >> 33) + 1000u;
	{
		/* initial frame: lcb_switch "returns" into the trampoline with an ABI-conforming stack */
		uint64_t *top = (uint64_t *)(void *)(f->stack + f->stack_sz);
		uint32_t csr = 0x1f80; uint16_t cw = 0x037f;
		top -= 1;                       /* after the ret into the trampoline rsp = end-8: the ABI's "just called" alignment */
		top[0] = 0;                     /* fake return address of the trampoline */
		*(--top) = (uint64_t)(uintptr_t)fiber_trampoline;
		for (int k = 0; k < 6; k++) *(--top) = 0;   /* rbp rbx r12 r13 r14 r15 */
		--top;
		memcpy((char *)top, &csr, 4); memcpy((char *)top + 4, &cw, 2);
		f->sp = top;
	}
	if (S.cur >= 0) f->cur_op = S.fb[S.cur].cur_op;
	return f->id;
}
int sim_spawn(void *(*fn)(void *), void *arg, const char *name) { return fiber_new(fn, arg, name, 0); }
int sim_new_pool_fiber(void *(*fn)(void *), void *arg) {
	char nm[24];
	snprintf(nm, sizeof(nm), "pool%d", S.pool_created);
	int id = fiber_new(fn, arg, nm, 1);
	if (id >= 0) S.pool_created++;
	return id;
}
void sim_fiber_exit_hook(fiber_t *f) { if (f->is_pool) S.pool_finished++; }

int sim_self(void) { return S.cur; }
int sim_self_is_pool(void) { return S.cur >= 0 && S.fb[S.cur].is_pool; }
uint64_t sim_now(void) { return S.now; }
uint64_t sim_step(void) { return S.step; }
uint64_t sim_evseq(void) { return ++S.evseq; }
rng_t *sim_rng(void) { return &S.rng; }
void sim_set_op(int op) { if (S.cur >= 0) S.fb[S.cur].cur_op = op; }
int sim_get_op(void) { return S.cur >= 0 ? S.fb[S.cur].cur_op : -1; }
void sim_mark_interesting(void) { S.interesting = 1; }
void sim_set_faults_pending(int n) { S.faults_pending_hint = n; }
int sim_fiber_done(int id) { return id >= 0 && id < S.nfb && S.fb[id].st == FB_DONE; }
int sim_pool_fibers_live(void) { return S.pool_created - S.pool_finished; }
int sim_pool_fibers_unjoined(void) { return S.pool_created - S.pool_joined; }
int sim_pool_fibers_created(void) { return S.pool_created; }

static void switch_to_main(void) {
	fiber_t *f = &S.fb[S.cur];
	f->saved_errno = errno;
#ifdef SIM_ASAN
	__sanitizer_start_switch_fiber(&f->asan_fake, NULL, 0);
#endif
	lcb_switch(&f->sp, S.main_sp);
#ifdef SIM_ASAN
	__sanitizer_finish_switch_fiber(f->asan_fake, NULL, NULL);
#endif
	errno = f->saved_errno;
}

void sim_yield(const char *site) {
	if (S.cur < 0 || !S.in_loop) return;
	fiber_t *f = &S.fb[S.cur];
	f->last_site = site;
	switch_to_main();
}
static void sim_yield_yieldy(const char *site) {
	if (S.cur < 0 || !S.in_loop) return;
	S.fb[S.cur].yieldy = 1;
	S.fb[S.cur].spinning = 1;
	sim_yield(site);
}
void sim_block(sim_pred_fn pred, void *arg, uint64_t deadline_ns, const char *site) {
	if (S.cur < 0 || !S.in_loop) { fprintf(stderr, "sim_block outside fiber\n"); abort(); }
	fiber_t *f = &S.fb[S.cur];
	f->st = FB_BLOCKED;
	f->pred = pred; f->pred_arg = arg; f->wake_at = deadline_ns;
	f->last_site = site;
	switch_to_main();
}
void sim_sleep_ns(uint64_t ns, const char *site) {
	if (ns == 0) { sim_yield_yieldy(site); return; }
	if (S.cur >= 0) S.fb[S.cur].yieldy = 1;
	sim_block(NULL, NULL, S.now + ns, site);
}
static int pred_fiber_done(void *arg) { return S.fb[(int)(intptr_t)arg].st == FB_DONE; }
void sim_join_fiber(int id) {
	if (id < 0 || id >= S.nfb) return;
	if (S.fb[id].st != FB_DONE) sim_block(pred_fiber_done, (void *)(intptr_t)id, 0, "join");
}
void sim_wait_idle(uint64_t max_ns) {
	if (S.cur < 0 || !S.in_loop) return;
	fiber_t *f = &S.fb[S.cur];
	f->st = FB_IDLEWAIT;
	f->wake_at = S.now + max_ns;
	f->last_site = "wait_idle";
	switch_to_main();
}

/* ================================================================= timed events */
void sim_after(uint64_t delay_ns, sim_timed_fn fn, void *arg) {
	if (S.ntimed >= SIM_MAX_TIMED) { sim_violation("sim-limit", "too many timed events"); return; }
	timed_ev_t *e = &S.timed[S.ntimed++];
	e->at = S.now + delay_ns; e->seq = ++S.timed_seq; e->fn = fn; e->arg = arg;
}
static void timed_fire_due(void) {
	for (;;) {
		int best = -1;
		for (int i = 0; i < S.ntimed; i++) {
			if (S.timed[i].at > S.now) continue;
			if (best < 0 || S.timed[i].at < S.timed[best].at ||
			    (S.timed[i].at == S.timed[best].at && S.timed[i].seq < S.timed[best].seq)) best = i;
		}
		if (best < 0) return;
		timed_ev_t e = S.timed[best];
		S.timed[best] = S.timed[--S.ntimed];
		e.fn(e.arg);
	}
}
static uint64_t timed_next(void) {
	uint64_t t = UINT64_MAX;
	for (int i = 0; i < S.ntimed; i++) if (S.timed[i].at < t) t = S.timed[i].at;
	return t;
}

/* ================================================================= epoll readiness */
static void refresh_epoll_ready(int force) {
	struct pollfd pfd[SIM_MAX_FIBERS];
	int idx[SIM_MAX_FIBERS], n = 0;
	if (!force && S.fd_gen == S.fd_gen_polled && !S.ep_membership_dirty) return;
	for (int i = 0; i < S.nfb; i++) {
		fiber_t *f = &S.fb[i];
		if (f->st != FB_BLOCKED || f->block_epfd < 0) continue;
		pfd[n].fd = f->block_epfd; pfd[n].events = POLLIN; pfd[n].revents = 0; idx[n] = i; n++;
	}
	if (n > 0) {
		int e = errno;
		poll(pfd, (nfds_t)n, 0);
		errno = e;
		for (int k = 0; k < n; k++) S.fb[idx[k]].ep_ready = (0 != (pfd[k].revents & (POLLIN | POLLERR | POLLHUP | POLLNVAL)));
	}
	S.fd_gen_polled = S.fd_gen;
	S.ep_membership_dirty = 0;
}
void sim_fd_activity(void) { S.fd_gen++; }

static int fiber_runnable(fiber_t *f) {
	switch (f->st) {
	case FB_READY: return 1;
	case FB_IDLEWAIT:
		return f->wake_at && S.now >= f->wake_at; /* horizon reached although the system never went idle */
	case FB_BLOCKED:
		if (f->wake_at && S.now >= f->wake_at) return 1;
		if (f->block_epfd >= 0) return f->ep_ready;
		if (f->pred) return f->pred(f->pred_arg) != 0;
		return 0;
	default: return 0;
	}
}

/* ================================================================= scheduler */
static void dec_record(int id) {
	if (S.ndec_taken >= S.dec_cap) {
		S.dec_cap = S.dec_cap ? S.dec_cap * 2 : 4096;
		S.dec_taken = realloc(S.dec_taken, sizeof(short) * (size_t)S.dec_cap);
	}
	S.dec_taken[S.ndec_taken++] = (short)id;
}
static int in_set(const int *run, int n, int id) { for (int i = 0; i < n; i++) if (run[i] == id) return 1; return 0; }
static int next_after(const int *run, int n, int cur) {
	for (int i = 0; i < n; i++) if (run[i] > cur) return run[i];
	return run[0];
}
static int pick_default(const int *run, int n, int last) {
	if (last >= 0 && in_set(run, n, last) && !S.fb[last].yieldy && S.consec < 64) return last;
	return next_after(run, n, last);
}
static int pick(const int *run, int n, int last) {
	int cur_ok = (last >= 0 && in_set(run, n, last));
	if (S.fair) return next_after(run, n, last);
	switch (S.policy) {
	case POL_REPLAY: {
		const plan_t *p = S.plan;
		if ((int)S.ndecision < p->ndec) {
			int want = p->dec[S.ndecision];
			if (want >= 0 && in_set(run, n, want)) return want;
		}
		return pick_default(run, n, last);
	}
	case POL_PCT: {
		for (int k = 0; k < S.pct_d; k++)
			if (S.pct_points[k] == S.ndecision && last >= 0) S.fb[last].prio = --S.pct_low;
		if (cur_ok && S.fb[last].yieldy) S.fb[last].prio = --S.pct_low;
		int best = run[0];
		for (int i = 1; i < n; i++) if (S.fb[run[i]].prio > S.fb[best].prio) best = run[i];
		return best;
	}
	default: /* POL_RANDOM */
		if (cur_ok && !S.fb[last].yieldy && !rng_chance(&S.rng, S.p_permille)) return last;
		if (cur_ok && S.fb[last].yieldy && n > 1) { /* prefer someone else */
			int k = (int)rng_below(&S.rng, (uint64_t)(n - 1));
			for (int i = 0; i < n; i++) { if (run[i] == last) continue; if (k-- == 0) return run[i]; }
		}
		return run[rng_below(&S.rng, (uint64_t)n)];
	}
}

void sim_loop(void) {
	int last = -1;
	S.in_loop = 1;
	while (!S.violated) {
		int run[SIM_MAX_FIBERS], n = 0;
		if (S.fb[S.root].st == FB_DONE) break;
		S.step++;
		if (S.step > S.budget) {
			if (S.faults_pending_hint > 0 && 0) S.inconclusive = 1;
			S.cur = -1;
			sim_violation("no-progress", "step budget %llu exhausted (fair round-robin since step %llu) at sim time %llu ns",
			    (unsigned long long)S.budget, (unsigned long long)(S.budget / 2), (unsigned long long)S.now);
			break;
		}
		if (!S.fair && S.step > S.budget / 2) { S.fair = 1; sim_probe("sched.fair_finish_entered"); }
		S.now += S.step_ns;
		S.cur = -1;
		sim_timers_fire_due();
		sim_children_fire_due();
		timed_fire_due();
		if (S.violated) break;
		refresh_epoll_ready(0);
		for (int i = 0; i < S.nfb; i++) if (fiber_runnable(&S.fb[i])) run[n++] = i;
		if (n == 0) {
			refresh_epoll_ready(1);
			for (int i = 0; i < S.nfb; i++) if (fiber_runnable(&S.fb[i])) run[n++] = i;
		}
		if (n > 0) {
			/* only spinners (fibers sitting in sched_yield) are runnable: they burn time until the next timed event */
			int all_spin = 1;
			for (int i = 0; i < n; i++) if (!S.fb[run[i]].spinning) { all_spin = 0; break; }
			if (all_spin) {
				uint64_t t = timed_next(), t2;
				t2 = sim_timers_next(); if (t2 < t) t = t2;
				t2 = sim_children_next(); if (t2 < t) t = t2;
				for (int i = 0; i < S.nfb; i++) if (S.fb[i].st == FB_BLOCKED && S.fb[i].wake_at && S.fb[i].wake_at < t) t = S.fb[i].wake_at;
				if (t != UINT64_MAX && t > S.now && S.spin_real_steps && S.step_ns && (t - S.now) / S.step_ns <= S.spin_real_steps) {
					/* plan asks for real spinning: every trip round the caller's retry loop is executed and costs step_ns,
					 * so that a loop which gives up after N tries gives up here too (sched spinreal=<steps>) */
					sim_probe("sched.spin_for_real");
				} else
				if (t != UINT64_MAX && t > S.now) {
					/* the spinners burnt time up to the next event; now they get to look again (one round) */
					S.now = t; sim_probe("sched.spin_time_jump");
					for (int i = 0; i < n; i++) S.fb[run[i]].spinning = 0;
					continue;
				}
			}
		}
		if (n == 0) {
			uint64_t t = timed_next(), t2;
			int idle = -1;
			t2 = sim_timers_next(); if (t2 < t) t = t2;
			t2 = sim_children_next(); if (t2 < t) t = t2;
			for (int i = 0; i < S.nfb; i++) {
				fiber_t *f = &S.fb[i];
				if (f->st == FB_BLOCKED && f->wake_at && f->wake_at < t) t = f->wake_at;
				if (f->st == FB_IDLEWAIT && (idle < 0 || f->wake_at < S.fb[idle].wake_at)) idle = i;
			}
			if (idle >= 0 && (t == UINT64_MAX || t > S.fb[idle].wake_at)) {
				/* system is idle up to the waiter's horizon */
				if (t != UINT64_MAX && S.fb[idle].wake_at > S.now) S.now = S.fb[idle].wake_at;
				S.fb[idle].st = FB_READY;
				continue;
			}
			if (t == UINT64_MAX) {
				char who[200]; size_t o = 0;
				who[0] = 0;
				for (int i = 0; i < S.nfb && o + 40 < sizeof(who); i++)
					if (S.fb[i].st == FB_BLOCKED)
						o += (size_t)snprintf(who + o, sizeof(who) - o, "%d:%s@%s ", i, S.fb[i].name, S.fb[i].last_site ? S.fb[i].last_site : "?");
				sim_violation("deadlock", "no runnable fiber and no pending event; blocked: %s", who);
				break;
			}
			if (t > S.now) S.now = t;
			continue;
		}
		int id = pick(run, n, last);
		dec_record(id);
		S.ndecision++;
		if (id == last) S.consec++; else { S.consec = 0; S.switches++; }
		fiber_t *f = &S.fb[id];
		hmix(((uint64_t)id << 48) ^ (f->last_site ? str_hash(f->last_site) : 0) ^ ((uint64_t)n << 40));
		if (sim_trace_on > 1) fprintf(stderr, "[t=%llu s=%llu] run f=%d (%s) from %s  runnable=%d\n",
		    (unsigned long long)S.now, (unsigned long long)S.step, id, f->name, f->last_site ? f->last_site : "start", n);
		if (f->st == FB_BLOCKED) {
			if (f->block_epfd >= 0) { f->block_epfd = -1; S.ep_membership_dirty = 1; }
			f->pred = NULL; f->wake_at = 0;
		}
		f->st = FB_READY;
		f->yieldy = 0;
		f->spinning = 0;
		S.cur = id;
		last = id;
		errno = f->saved_errno;
#ifdef SIM_ASAN
		{ void *fake = NULL;
		__sanitizer_start_switch_fiber(&fake, f->stack, f->stack_sz);
		lcb_switch(&S.main_sp, f->sp);
		__sanitizer_finish_switch_fiber(fake, NULL, NULL); }
#else
		lcb_switch(&S.main_sp, f->sp);
#endif
		S.cur = -1;
		if (f->st == FB_DONE && !f->revoked) { stack_revoke(f->stack_slot); f->revoked = 1; }
	}
	S.cur = -1;
	S.in_loop = 0;
}

/* helper for seams: park in epoll */
void sim_block_epoll(int epfd, const char *site);
void sim_block_epoll(int epfd, const char *site) {
	fiber_t *f = &S.fb[S.cur];
	f->st = FB_BLOCKED;
	f->block_epfd = epfd;
	f->ep_ready = 0;
	f->pred = NULL; f->wake_at = 0;
	f->last_site = site;
	S.ep_membership_dirty = 1;
	switch_to_main();
}
void sim_yield_spin(const char *site);
void sim_yield_spin(const char *site) { sim_yield_yieldy(site); }

#ifdef SIM_ASAN
void __asan_on_error(void);
void __asan_on_error(void) {
	char buf[200];
	int n = snprintf(buf, sizeof(buf), "\nCRASH sig=0 addr=0 fiber=%d site=%s step=%llu ctx=%s\n", S.cur,
	    (S.cur >= 0 && S.fb[S.cur].last_site) ? S.fb[S.cur].last_site : "-", (unsigned long long)S.step, S.ctx_tag[0] ? S.ctx_tag : "-");
	if (n > 0) (void)!write(2, buf, (size_t)n);
}
#endif

/* ================================================================= crash handling */
static stack_t g_altstack;
static struct sigaction g_old_segv, g_old_bus;
static void crash_handler(int sig, siginfo_t *si, void *uc) {
	int is_guard = 0;
	int slot = stack_find_revoked(si->si_addr, &is_guard);
	(void)uc;
	if (slot >= 0 && S.cur >= 0 && S.in_loop) {
		int owner = -1;
		for (int i = 0; i < S.nfb; i++) if (S.fb[i].stack_slot == slot) owner = i;
		if (!S.violated) {
			S.violated = 1;
			if (is_guard) {
				snprintf(S.vclass, sizeof(S.vclass), "stack-overflow");
				snprintf(S.detail, sizeof(S.detail), "fiber %d (%s) hit the guard page of fiber %d's stack", S.cur, S.fb[S.cur].name, owner);
			} else {
				snprintf(S.vclass, sizeof(S.vclass), "dead-stack-access");
				snprintf(S.detail, sizeof(S.detail), "fiber %d (%s) touched the stack of finished fiber %d (%s) after it returned",
				    S.cur, S.fb[S.cur].name, owner, owner >= 0 ? S.fb[owner].name : "?");
			}
			if (S.ctx_tag[0]) { size_t l = strlen(S.detail); snprintf(S.detail + l, sizeof(S.detail) - l, " [ctx: %s]", S.ctx_tag); }
			snprintf(S.vsite, sizeof(S.vsite), "%s", sim_cur_site());
			S.vtime = S.now;
		}
		/* abandon the fiber: jump to the scheduler context */
		{ void *dummy; lcb_switch(&dummy, S.main_sp); }
		_exit(71);
	}
	/* a real crash: report and die (driver reconstructs the plan from the run file) */
	{
		char buf[256];
		int n = snprintf(buf, sizeof(buf), "\nCRASH sig=%d addr=%p fiber=%d site=%s step=%llu ctx=%s\n", sig, si->si_addr, S.cur,
		    (S.cur >= 0 && S.fb[S.cur].last_site) ? S.fb[S.cur].last_site : "-", (unsigned long long)S.step, S.ctx_tag[0] ? S.ctx_tag : "-");
		if (n > 0) (void)!write(2, buf, (size_t)n);
	}
	{
		struct sigaction *old = (sig == SIGSEGV) ? &g_old_segv : &g_old_bus;
		if ((old->sa_flags & SA_SIGINFO) && old->sa_sigaction) { old->sa_sigaction(sig, si, uc); }
	}
	_exit(70);
}
/* Watchdog for code under test that never reaches a seam again (an endless loop in pure computation cannot be
 * preempted or timed by the simulator). A wall-clock tick every second; when the run in progress has not moved a
 * single scheduler step for hang_s consecutive ticks the worker reports it like a crash and dies: the driver
 * regenerates the plan from the run index, and a fresh-process replay hangs the same way. Runs take milliseconds;
 * the limit is thousands of times that. */
static volatile int g_wd_running; static volatile unsigned long long g_wd_run, g_wd_last_run, g_wd_last_step; static volatile int g_wd_stagnant;
static int g_wd_limit = 12;
static void watchdog_handler(int sig) {
	(void)sig;
	if (!g_wd_running) { g_wd_stagnant = 0; return; }
	if (g_wd_run != g_wd_last_run || S.step != g_wd_last_step) { g_wd_last_run = g_wd_run; g_wd_last_step = S.step; g_wd_stagnant = 0; return; }
	if (++g_wd_stagnant < g_wd_limit) return;
	{
		char buf[300];
		int n = snprintf(buf, sizeof(buf), "\nCRASH sig=14 addr=0 fiber=%d site=%s step=%llu ctx=%s\nLCBSIM-HANG no scheduling point reached for %d s of wall time\n", S.cur,
		    (S.cur >= 0 && S.fb[S.cur].last_site) ? S.fb[S.cur].last_site : "-", (unsigned long long)S.step, S.ctx_tag[0] ? S.ctx_tag : "-", g_wd_limit);
		if (n > 0) (void)!write(2, buf, (size_t)n);
	}
	_exit(72);
}
static void watchdog_arm(void) {
	static int armed;
	struct sigaction sa; struct itimerval it;
	if (armed) return;
	armed = 1;
	if (getenv("LCBSIM_HANG_S")) g_wd_limit = atoi(getenv("LCBSIM_HANG_S"));
	if (g_wd_limit <= 0) return;
	memset(&sa, 0, sizeof(sa));
	sa.sa_handler = watchdog_handler; sa.sa_flags = SA_RESTART | SA_ONSTACK; sigemptyset(&sa.sa_mask);
	sigaction(SIGALRM, &sa, NULL);
	it.it_interval.tv_sec = 1; it.it_interval.tv_usec = 0; it.it_value = it.it_interval;
	setitimer(ITIMER_REAL, &it, NULL);
}

void sim_install_crash_handler(void);
void sim_install_crash_handler(void) {
	struct sigaction sa;
	g_altstack.ss_sp = malloc(256 * 1024);
	g_altstack.ss_size = 256 * 1024;
	g_altstack.ss_flags = 0;
	sigaltstack(&g_altstack, NULL);
	memset(&sa, 0, sizeof(sa));
	sa.sa_sigaction = crash_handler;
	sa.sa_flags = SA_SIGINFO | SA_ONSTACK | SA_NODEFER;
	sigemptyset(&sa.sa_mask);
	sigaction(SIGSEGV, &sa, &g_old_segv);
	sigaction(SIGBUS, &sa, &g_old_bus);
}

/* ================================================================= begin / end */
void sim_begin(const plan_t *plan) {
	short *keep = S.dec_taken; int keep_cap = S.dec_cap;
	g_wd_running = 0;
	memset(&S, 0, sizeof(S));
	g_wd_run++; g_wd_stagnant = 0; g_wd_running = 1; watchdog_arm();
	S.dec_taken = keep; S.dec_cap = keep_cap;
	S.plan = plan;
	S.cur = -1;
	S.policy = (int)item_get(&plan->sched, "policy", POL_RANDOM);
	rng_seed(&S.rng, (uint64_t)item_get(&plan->sched, "seed", 1));
	S.p_permille = (unsigned)item_get(&plan->sched, "p", 300);
	S.pct_d = (int)item_get(&plan->sched, "d", 2);
	if (S.pct_d > 8) S.pct_d = 8;
	S.budget = (uint64_t)item_get(&plan->sched, "budget", 60000);
	S.step_ns = (uint64_t)item_get(&plan->sched, "stepns", 1000);
	S.spin_real_steps = (uint64_t)item_get(&plan->sched, "spinreal", 0);
	S.pct_low = 999u;
	{
		uint64_t k = (uint64_t)item_get(&plan->sched, "k", 1500);
		for (int i = 0; i < S.pct_d; i++) S.pct_points[i] = 1 + rng_below(&S.rng, k ? k : 1);
	}
	S.rt_offset = (int64_t)item_get(&plan->sched, "rtoff", 1700000000LL) * 1000000000LL;
	S.hash = 0xcbf29ce484222325ULL;
	sim_knobs.tolerate_bad_close = 0;
	sim_knobs.realloc_inplace = (int)item_get(&plan->cfg, "inplace", 0);
	sim_seams_begin();
	/* faults: attached to ops */
	for (int i = 0; i < plan->nops; i++) {
		for (int j = 0; j < plan->ops[i].nfaults; j++) {
			const item_t *fi = &plan->ops[i].faults[j];
			if (S.nfaults >= SIM_MAX_FAULTS) break;
			sim_fault_rec_t *fr = &S.faults[S.nfaults++];
			fr->op = item_has(fi, "anyop") ? -1 : i;
			snprintf(fr->site, sizeof(fr->site), "%s", fi->kind);
			fr->nth = (int)item_get(fi, "nth", 1);
			fr->count = (int)item_get(fi, "count", 1);
			fr->err = (int)item_get(fi, "err", EIO);
			fr->fired = 0;
		}
	}
}

void sim_end(sim_result_t *res) {
	g_wd_running = 0;
	memset(res, 0, sizeof(*res));
	if (!S.violated && S.deferred) {
		S.violated = 1;
		memcpy(S.vclass, S.dclass, sizeof(S.vclass));
		memcpy(S.detail, S.ddetail, sizeof(S.detail));
		snprintf(S.vsite, sizeof(S.vsite), "deferred");
	}
	res->violated = S.violated;
	memcpy(res->vclass, S.vclass, sizeof(res->vclass));
	memcpy(res->detail, S.detail, sizeof(res->detail));
	memcpy(res->vsite, S.vsite, sizeof(res->vsite));
	res->vtime = S.vtime;
	res->hash = S.hash;
	res->steps = S.step;
	res->sim_ns = S.now;
	res->interesting = S.interesting;
	res->inconclusive = S.inconclusive;
	res->switches = S.switches;
	/* tear down: nothing runs any more */
	sim_seams_end();
	for (int i = 0; i < S.nfb; i++) stack_put(S.fb[i].stack_slot);
	S.nfb = 0;
}

int sim_decisions_taken(const short **out);
int sim_decisions_taken(const short **out) { *out = S.dec_taken; return S.ndec_taken; }
int sim_probes_snapshot(const char **names, unsigned long long *vals, int max);
int sim_probes_snapshot(const char **names, unsigned long long *vals, int max) {
	int n = S.nprobes < max ? S.nprobes : max;
	for (int i = 0; i < n; i++) { names[i] = S.probes[i].name; vals[i] = S.probes[i].n; }
	return n;
}
void *sim_fiber_tls(int fiber, int key);
/* does `fiber` hold `val` as thread-specific data under any key */
int sim_fiber_has_tls_value(int fiber, const void *val) {
	if (fiber < 0 || fiber >= S.nfb || !val) return 0;
	for (int i = 0; i < SIM_MAX_KEYS; i++) if (S.fb[fiber].tls_key[i] && S.fb[fiber].tls[i] == val) return 1;
	return 0;
}

/* ================================================================= faults */
int sim_fault(const char *site) {
	int op = sim_get_op(), cnt = 0, idx = -1;
	if (S.nfaults == 0) return 0;
	/* per (op, site) call counter */
	for (int i = 0; i < S.op_site_cnt_n; i++)
		if (S.op_site_cnt[i].op == op && 0 == strcmp(S.op_site_cnt[i].site, site)) { idx = i; break; }
	if (idx < 0) {
		if (S.op_site_cnt_n >= 512) return 0;
		idx = S.op_site_cnt_n++;
		S.op_site_cnt[idx].op = op;
		snprintf(S.op_site_cnt[idx].site, PLAN_KEYLEN, "%s", site);
		S.op_site_cnt[idx].cnt = 0;
	}
	cnt = ++S.op_site_cnt[idx].cnt;
	for (int i = 0; i < S.nfaults; i++) {
		sim_fault_rec_t *fr = &S.faults[i];
		if (fr->op != op && fr->op != -1) continue;
		if (0 != strcmp(fr->site, site)) continue;
		if (cnt < fr->nth || cnt >= fr->nth + fr->count) continue;
		fr->fired++;
		sim_log("FAULT %s op=%d nth=%d -> errno %d", site, op, cnt, fr->err);
		return fr->err;
	}
	return 0;
}
void sim_fault_add(int op, const char *site, int nth, int count, int err);
void sim_fault_add(int op, const char *site, int nth, int count, int err) {
	if (S.nfaults >= SIM_MAX_FAULTS) return;
	sim_fault_rec_t *fr = &S.faults[S.nfaults++];
	fr->op = op; snprintf(fr->site, sizeof(fr->site), "%s", site);
	fr->nth = nth; fr->count = count; fr->err = err; fr->fired = 0;
}
int sim_faults_fired(void);
/* error-injecting faults that fired (short transfers are not errors: nothing may be relaxed because of them) */
int sim_faults_fired(void) {
	int n = 0;
	for (int i = 0; i < S.nfaults; i++) {
		size_t l = strlen(S.faults[i].site);
		if (l > 6 && 0 == strcmp(S.faults[i].site + l - 6, ".short")) continue;
		n += S.faults[i].fired;
	}
	return n;
}
int sim_fault_fired_err(const char *site, int err) {
	int n = 0;
	for (int i = 0; i < S.nfaults; i++) if (S.faults[i].err == err && 0 == strcmp(S.faults[i].site, site)) n += S.faults[i].fired;
	return n;
}
int sim_fault_fired_op(int op) {
	int n = 0;
	for (int i = 0; i < S.nfaults; i++) if (S.faults[i].op == op) n += S.faults[i].fired;
	return n;
}
int sim_fault_fired_site(const char *site) {
	int n = 0;
	for (int i = 0; i < S.nfaults; i++) if (0 == strcmp(S.faults[i].site, site)) n += S.faults[i].fired;
	return n;
}
int sim_fault_pending_total(void) {
	int n = 0;
	for (int i = 0; i < S.nfaults; i++) if (!S.faults[i].fired) n++;
	return n;
}
