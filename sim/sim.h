/*
 * lcbsim - deterministic simulation core for liblcb verification.
 *
 * One OS thread.  Every "thread" of the system under test and every harness
 * actor is a ucontext fiber.  A seeded scheduler decides which fiber runs at
 * every decision point (each seam call of the code under test, each guarded
 * hook, each harness yield).  Time is a discrete-event clock.  Kernel objects
 * epoll/pipe/eventfd/socketpair are real; blocking, time and failure are not.
 */
#ifndef LCBSIM_SIM_H
#define LCBSIM_SIM_H

#include <stddef.h>
#include <stdint.h>
#include <stdarg.h>
#include <sys/types.h>

/* ------------------------------------------------------------------ rng */
typedef struct { uint64_t s[4]; } rng_t;
uint64_t splitmix64(uint64_t *x);
void     rng_seed(rng_t *r, uint64_t seed);
uint64_t rng_next(rng_t *r);
uint64_t rng_below(rng_t *r, uint64_t n);           /* uniform in [0,n), n>=1 */
int64_t  rng_range(rng_t *r, int64_t lo, int64_t hi); /* inclusive */
int      rng_chance(rng_t *r, unsigned permille);

/* ------------------------------------------------------------------ plan */
#define PLAN_MAX_KV     32
#define PLAN_MAX_OPS    400
#define PLAN_MAX_FAULTS 6
#define PLAN_KEYLEN     16

typedef struct { char key[PLAN_KEYLEN]; long long val; } kv_t;
typedef struct { char kind[PLAN_KEYLEN]; int nkv; kv_t kv[PLAN_MAX_KV]; } item_t;
typedef struct { item_t it; int nfaults; item_t faults[PLAN_MAX_FAULTS]; } op_t;

typedef struct plan {
	char     prop[8];
	uint64_t seed;
	item_t   cfg;
	item_t   sched;      /* policy=0 random,1 pct,2 replay ; seed ; p ; d ; budget ; stepns */
	int      nops;
	op_t     ops[PLAN_MAX_OPS];
	int      ndec;       /* replay decisions */
	int      dec_cap;
	short   *dec;        /* fiber ordinal, or -1 = default */
} plan_t;

void      plan_init(plan_t *p);
void      plan_free(plan_t *p);
long long item_get(const item_t *it, const char *key, long long def);
int       item_has(const item_t *it, const char *key);
void      item_set(item_t *it, const char *key, long long val);
void      item_kind(item_t *it, const char *kind);
op_t     *plan_add_op(plan_t *p, const char *kind);
item_t   *op_add_fault(op_t *op, const char *kind);
void      plan_print(const plan_t *p, void *file /* FILE* */, int with_dec);
int       plan_parse(plan_t *p, void *file /* FILE* */); /* reads until "end"; 0 ok, 1 eof, -1 error */

/* ------------------------------------------------------------------ sim */
#define SIM_MAX_FIBERS  96
#define SIM_MAX_KEYS    8
#define SIM_MAX_FD      4096
#define SIM_PTHREAD_BASE 1000u

enum { POL_RANDOM = 0, POL_PCT = 1, POL_REPLAY = 2 };

typedef int (*sim_pred_fn)(void *arg);

/* fd kinds in the ledger */
enum {
	FDK_NONE = 0, FDK_EPOLL, FDK_PIPE_R, FDK_PIPE_W, FDK_TIMER, FDK_PIDFD,
	FDK_SOCK, FDK_HARNESS /* opened by the harness, not by the library */
};

typedef struct sim_result {
	int       violated;
	char      vclass[48];
	char      detail[400];
	char      vsite[48];
	uint64_t  vtime;
	uint64_t  hash;
	uint64_t  steps;
	uint64_t  sim_ns;
	int       interesting;
	int       inconclusive;  /* budget exhausted while faults still pending etc. */
	uint64_t  switches;      /* decisions where the running fiber changed */
} sim_result_t;

/* life cycle of one simulated run (called from the worker, main context) */
void  sim_begin(const plan_t *plan);
int   sim_spawn(void *(*fn)(void *), void *arg, const char *name); /* harness fiber; returns fiber id */
void  sim_loop(void);                   /* run until the root fiber finished, a violation, deadlock or budget */
void  sim_end(sim_result_t *res);       /* tear everything down (fds, stacks, allocations) */

/* from inside fibers */
int       sim_self(void);                       /* fiber ordinal */
int       sim_self_is_pool(void);               /* created through the pthread_create seam */
void      sim_yield(const char *site);          /* plain decision point */
void      sim_block(sim_pred_fn pred, void *arg, uint64_t deadline_ns, const char *site); /* park until pred()!=0 or now>=deadline (0 = none) */
void      sim_sleep_ns(uint64_t ns, const char *site);
uint64_t  sim_now(void);
uint64_t  sim_step(void);
uint64_t  sim_evseq(void);                      /* global event sequence number (monotone, +1 per call) */
void      sim_join_fiber(int id);               /* harness-level join */
int       sim_fiber_done(int id);
void      sim_wait_idle(uint64_t max_ns);       /* park until no other fiber is runnable and no timed event is due before now+max_ns */
void      sim_set_op(int op);                   /* fault attribution of the calling fiber */
int       sim_get_op(void);
void      sim_mark_interesting(void);
void      sim_set_faults_pending(int n);        /* harness: number of planned faults not yet fired (for inconclusive vs no-progress) */
rng_t    *sim_rng(void);                        /* scheduler stream; harness must NOT draw from it (plan is explicit) */

/* violations */
void  sim_violation(const char *cls, const char *fmt, ...) __attribute__((format(printf, 2, 3)));
void  sim_violation_deferred(const char *cls, const char *fmt, ...) __attribute__((format(printf, 2, 3)));
int   sim_violated(void);
void  sim_fair_finish(void);                /* switch to round-robin scheduling for the rest of the run (before liveness checks) */
void  sim_set_context_tag(const char *tag); /* appended as " [ctx: tag]" to the detail of any later violation (known-finding preconditions) */
void  sim_log(const char *fmt, ...) __attribute__((format(printf, 1, 2))); /* trace only (no rng, no clock) */
void  sim_hash_u64(uint64_t v);
extern int sim_trace_on;

/* probes / counters (aggregated by the worker) */
void  sim_probe(const char *name);
void  sim_probe_add(const char *name, uint64_t n);

/* timed events */
typedef void (*sim_timed_fn)(void *arg);
void  sim_after(uint64_t delay_ns, sim_timed_fn fn, void *arg);

/* faults: returns errno to inject (>0) or 0. site = short name e.g. "qwrite" */
int   sim_fault(const char *site);
int   sim_fault_pending_total(void);
int   sim_faults_fired(void);          /* error-injecting faults only (short transfers excluded) */
int   sim_fault_fired_site(const char *site);
int   sim_fault_fired_err(const char *site, int err);   /* fired faults of that site that injected that errno */
int   sim_fault_fired_op(int op);         /* faults attached to plan op `op` that fired so far */

/* simulated timerfd / clock / pidfd access for harness oracles */
typedef struct sim_timer_rec {
	int       fd;           /* eventfd standing in */
	int       ord;          /* logical ordinal */
	int       clock;        /* CLOCK_MONOTONIC / CLOCK_REALTIME */
	int       armed;
	int       abstime;
	uint64_t  next;         /* next expiry in monotonic sim ns */
	uint64_t  interval;     /* 0 = one shot */
	uint64_t  generated;    /* expirations written to the eventfd */
	uint64_t  discarded;    /* expirations drained by settime/close without being read by the library */
	uint64_t  delivered;    /* expirations read through the read seam */
	uint64_t  settime_calls;
	/* last programmed values, raw */
	int64_t   last_value_sec, last_value_nsec, last_itv_sec, last_itv_nsec;
	int       last_flags;
	uint64_t  last_arm_time;
	int       last_settime_errno;
	int       closed;
} sim_timer_rec_t;
sim_timer_rec_t *sim_timer_by_fd(int fd);
sim_timer_rec_t *sim_timer_by_ord(int ord);
int       sim_timer_count(void);
uint64_t  sim_realtime_offset(void);   /* CLOCK_REALTIME = offset + monotonic */
void      sim_realtime_jump(int64_t delta_ns);

/* fake child processes for TP_EV_PROC */
int   sim_child_add(int pid, uint64_t exit_at_ns, int status);

/* fd ledger */
typedef struct sim_fd_rec { unsigned char kind; unsigned char by_lib; short ord; int op; int peer; } sim_fd_rec_t;
sim_fd_rec_t *sim_fd(int fd);
void  sim_fd_note_harness(int fd);        /* harness opened this fd itself */
void  sim_fd_forget(int fd);              /* harness closed it itself */
int   sim_lib_fds_open(void);             /* number of fds opened via library seams and still open */
void  sim_fd_activity(void);              /* anything that may change epoll readiness */

/* allocation ledger */
size_t sim_lib_allocs_live(void);
size_t sim_lib_alloc_bytes_live(void);
int    sim_alloc_is_live(const void *p);
uint64_t sim_alloc_count(void);           /* number of allocations made through the seams so far */

/* threads ledger */
int   sim_pool_fibers_live(void);         /* created via pthread_create seam and not finished */
int   sim_pool_fibers_unjoined(void);     /* finished or not, never joined */
int   sim_pool_fibers_created(void);
int   sim_seam_calls_failable(void);      /* count of failable seam calls so far (for k-enumeration) */

/* knobs the seams read */
typedef struct sim_knobs {
	int pipe_size;       /* F_SETPIPE_SZ for pipe2 seams, 0 = leave */
	int ncpu;            /* sysconf(_SC_NPROCESSORS_CONF) */
	int dtablesize;      /* getdtablesize() */
	int realloc_inplace; /* allocator front: 16 byte granules that grow in place (1) or every realloc moves (0) */
	int tolerate_bad_close; /* close() of a descriptor unknown to the ledger is answered EBADF and counted, not a violation
	                         (set while control calls race from another thread: the statement promises nothing there) */
} sim_knobs_t;
extern sim_knobs_t sim_knobs;

int   sim_qwrite_fails(void);            /* failed message-queue writes issued by the calling fiber so far */
int   sim_qwrite_fail_errno(void);
int   sim_fiber_has_tls_value(int fiber, const void *val);
int   sim_decisions_taken(const short **out);

/* simulated network for connect(): port -> outcome */
enum { SIM_NET_NONE = 0, SIM_NET_ACCEPT, SIM_NET_REFUSE, SIM_NET_BLACKHOLE, SIM_NET_IMMEDIATE_OK, SIM_NET_IMMEDIATE_REFUSE };
int   sim_net_endpoint(int port, int mode, uint64_t delay_ns);
int   sim_net_open_sockets(void);
int   sim_net_conn_count(void);
extern void (*sim_on_connect_hook)(int port, int mode, uint64_t now);

/* the code-under-test's debug_break (raise(SIGTRAP)) lands here */
int   sim_raise(int sig);

/* hook the harness may install: called when a library seam closes fd */
extern void (*sim_on_close_hook)(int fd, int kind);
extern void (*sim_on_pipe_io_hook)(int fd, int is_write, const void *buf, ssize_t n); /* successful queue-pipe transfers */
int sim_fd_peer(int fd);   /* other end of a pipe created by the code under test, -1 */
/* hook called at every epoll_ctl reaching the seam: (epfd, op, fd, events, ret, errno) */
extern void (*sim_on_epoll_ctl_hook)(int epfd, int op, int fd, uint32_t events, int ret, int err);
/* harness-provided syscall emulation for sockets (optional) */

#endif
