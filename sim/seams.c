/* lcbsim seams: the sim_* functions the renamed imports of the repo objects bind to. */
#include "sim_int.h"
#include <stdio.h>
#include <stdlib.h>
#include <string.h>
#include <errno.h>
#include <unistd.h>
#include <fcntl.h>
#include <poll.h>
#include <time.h>
#include <pthread.h>
#include <sched.h>
#include <sys/epoll.h>
#include <sys/eventfd.h>
#include <sys/timerfd.h>
#include <sys/socket.h>
#include <sys/syscall.h>
#include <sys/wait.h>
#include <sys/mman.h>

void sim_block_epoll(int epfd, const char *site);
void sim_yield_spin(const char *site);

static void net_on_close(int fd);
static int g_nkeys = 0; /* process wide: the pool's TLS key is a static of the library */

/* ------------------------------------------------------------ helpers */
static int fault_any(const char *site, int natural_errno) {
	int e;
	S.failable_calls++;
	e = sim_fault("any");
	if (e) { sim_probe("fault.any"); return natural_errno; }
	e = sim_fault(site);
	return e;
}
int sim_seam_calls_failable(void) { return S.failable_calls; }

static void fd_set_rec(int fd, int kind, int by_lib) {
	if (fd < 0 || fd >= SIM_MAX_FD) { fprintf(stderr, "lcbsim: fd %d out of ledger range\n", fd); abort(); }
	sim_fd_rec_t *r = &S.fds[fd];
	r->kind = (unsigned char)kind; r->by_lib = (unsigned char)by_lib;
	r->ord = (short)S.fd_ord_next++; r->op = sim_get_op(); r->peer = -1;
}
sim_fd_rec_t *sim_fd(int fd) { if (fd < 0 || fd >= SIM_MAX_FD) return NULL; return &S.fds[fd]; }
void sim_fd_note_harness(int fd) { fd_set_rec(fd, FDK_HARNESS, 0); S.fd_gen++; }
void sim_fd_forget(int fd) { if (fd >= 0 && fd < SIM_MAX_FD) memset(&S.fds[fd], 0, sizeof(S.fds[fd])); S.fd_gen++; }
int sim_lib_fds_open(void) {
	int n = 0;
	for (int i = 0; i < SIM_MAX_FD; i++) if (S.fds[i].kind != FDK_NONE && S.fds[i].by_lib) n++;
	return n;
}

/* ------------------------------------------------------------ allocation ledger */
/* The allocator front is the simulator's own: every block gets a tail red zone that is checked when the block is
 * released (heap overruns are visible in the plain build too), and whether realloc() grows in place or moves is a
 * deterministic rule (never the real allocator's mood): with sim_knobs.realloc_inplace blocks have 16 byte
 * granularity and grow in place inside it, otherwise every size change moves the block. */
#if defined(__has_feature)
#  if __has_feature(address_sanitizer)
#    define SEAM_ASAN 1
#  endif
#endif
#if defined(__SANITIZE_ADDRESS__)
#  define SEAM_ASAN 1
#endif
#ifdef SEAM_ASAN
void __asan_poison_memory_region(void const volatile *addr, size_t size);
void __asan_unpoison_memory_region(void const volatile *addr, size_t size);
#endif
#define AL_CAP (1u << 15)
#define AL_REDZ 32
#define AL_CANARY 0xFD
static struct { void *p; size_t sz; size_t cap; } g_al[AL_CAP];
static size_t g_al_live, g_al_bytes;
static uint64_t g_al_total;
static unsigned al_slot(const void *p) { return (unsigned)((((uintptr_t)p) >> 4) * 2654435761u) & (AL_CAP - 1); }
static void al_add(void *p, size_t sz, size_t cap) {
	unsigned i = al_slot(p);
	if (g_al_live * 2 > AL_CAP) { fprintf(stderr, "lcbsim: allocation ledger full\n"); abort(); }
	while (g_al[i].p && g_al[i].p != (void *)1) i = (i + 1) & (AL_CAP - 1);
	g_al[i].p = p; g_al[i].sz = sz; g_al[i].cap = cap; g_al_live++; g_al_bytes += sz; g_al_total++;
}
static int al_find(const void *p) {
	unsigned i = al_slot(p);
	for (unsigned n = 0; n < AL_CAP; n++, i = (i + 1) & (AL_CAP - 1)) {
		if (!g_al[i].p) return -1;
		if (g_al[i].p == p) return (int)i;
	}
	return -1;
}
static void al_del_idx(int i) {
	g_al_bytes -= g_al[i].sz; g_al_live--;
	g_al[i].p = (void *)1; /* tombstone */
}
size_t sim_lib_allocs_live(void) { return g_al_live; }
size_t sim_lib_alloc_bytes_live(void) { return g_al_bytes; }
int sim_alloc_is_live(const void *p) { return al_find(p) >= 0; }
uint64_t sim_alloc_count(void) { return g_al_total; }

static void *al_raw_alloc(size_t sz, int zero) {
	size_t cap = sim_knobs.realloc_inplace ? ((sz + 15u) & ~(size_t)15u) : sz;
	uint8_t *p = zero ? calloc(1, cap + AL_REDZ) : malloc(cap + AL_REDZ);
	if (!p) return NULL;
	/* what malloc hands out is not zero and not whatever the process happened to free last: a fixed pattern, so that
	 * code which relies on fresh memory being clean misbehaves the same way in every process */
	if (!zero) memset(p, 0xA5, cap);
	memset(p + cap, AL_CANARY, AL_REDZ);
#ifdef SEAM_ASAN
	__asan_poison_memory_region(p + cap, AL_REDZ);
#endif
	al_add(p, sz, cap);
	return p;
}
/* returns 0 if the red zone is intact */
static int al_check_redzone(int i) {
	uint8_t *p = g_al[i].p;
	int bad = 0;
#ifdef SEAM_ASAN
	__asan_unpoison_memory_region(p + g_al[i].cap, AL_REDZ);
#endif
	for (int k = 0; k < AL_REDZ; k++) if (p[g_al[i].cap + (size_t)k] != AL_CANARY) { bad = k + 1; break; }
	return bad;
}
static void al_raw_free(int i, int check) {
	void *p = g_al[i].p;
	int bad = al_check_redzone(i);
	size_t sz = g_al[i].sz;
	memset(p, 0xDD, g_al[i].cap);   /* freed memory does not keep its content either */
	al_del_idx(i);
	free(p);
	if (bad && check) sim_violation("heap-overrun", "library wrote %d byte(s) or more past the end of a %zu byte allocation (red zone damaged)", bad, sz);
}
void sim_alloc_reset(void) {
	for (unsigned i = 0; i < AL_CAP; i++) {
		if (g_al[i].p && g_al[i].p != (void *)1) {
#ifdef SEAM_ASAN
			__asan_unpoison_memory_region((uint8_t *)g_al[i].p + g_al[i].cap, AL_REDZ);
#endif
			free(g_al[i].p);
		}
		g_al[i].p = NULL; g_al[i].sz = 0; g_al[i].cap = 0;
	}
	g_al_live = 0; g_al_bytes = 0; g_al_total = 0;
}

void *sim_malloc(size_t sz) {
	sim_yield("alloc");
	if (fault_any("alloc", ENOMEM)) { sim_probe("fault.alloc"); errno = ENOMEM; return NULL; }
	return al_raw_alloc(sz, 0);
}
void *sim_calloc(size_t n, size_t sz) {
	sim_yield("alloc");
	if (fault_any("alloc", ENOMEM)) { sim_probe("fault.alloc"); errno = ENOMEM; return NULL; }
	if (sz && n > SIZE_MAX / sz) { errno = ENOMEM; return NULL; }
	return al_raw_alloc(n * sz, 1);
}
void *sim_realloc(void *old, size_t sz) {
	int i = -1;
	void *p;
	sim_yield("alloc");
	if (old && (i = al_find(old)) < 0) { sim_violation("free-unknown", "realloc of pointer %p that is not a live library allocation", old); return NULL; }
	if (fault_any("alloc", ENOMEM)) { sim_probe("fault.alloc"); errno = ENOMEM; return NULL; }
	if (!old) return al_raw_alloc(sz, 0);
	if (sim_knobs.realloc_inplace && sz <= g_al[i].cap && sz > 0) {
		/* grows/shrinks inside the block's granule: same address */
		g_al_bytes += sz; g_al_bytes -= g_al[i].sz;
		if (sz > g_al[i].sz) memset((uint8_t *)old + g_al[i].sz, 0xA5, sz - g_al[i].sz);
		{
			/* a block that shrinks in place gives its tail back: the red zone moves up to the new end (whoever still
			 * believes in the old capacity writes into it) */
			size_t ncap = (sz + 15u) & ~(size_t)15u;
			if (ncap < g_al[i].cap) {
#ifdef SEAM_ASAN
				__asan_unpoison_memory_region((uint8_t *)old + ncap, g_al[i].cap - ncap + AL_REDZ);
#endif
				memset((uint8_t *)old + ncap, AL_CANARY, AL_REDZ);
#ifdef SEAM_ASAN
				__asan_poison_memory_region((uint8_t *)old + ncap, g_al[i].cap - ncap + AL_REDZ);
#endif
				g_al[i].cap = ncap;
				sim_probe("alloc.realloc_shrunk_in_place");
			}
		}
		g_al[i].sz = sz;
		sim_probe("alloc.realloc_in_place");
		return old;
	}
	p = al_raw_alloc(sz, 0);
	if (!p) return NULL;
	memcpy(p, old, g_al[i].sz < sz ? g_al[i].sz : sz);
	i = al_find(old);
	al_raw_free(i, 1);
	sim_probe("alloc.realloc_moved");
	return p;
}
void *sim_reallocarray(void *old, size_t n, size_t sz) {
	if (sz && n > SIZE_MAX / sz) { errno = ENOMEM; return NULL; }
	return sim_realloc(old, n * sz);
}
void sim_free(void *p) {
	int i;
	if (!p) return;
	if ((i = al_find(p)) < 0) { sim_violation("free-unknown", "free of pointer %p that is not a live library allocation (double free or foreign pointer)", p); return; }
	al_raw_free(i, 1);
}

/* ------------------------------------------------------------ pthreads */
int sim_pthread_create(pthread_t *thread, const pthread_attr_t *attr, void *(*fn)(void *), void *arg) {
	int e, id;
	(void)attr;
	sim_yield("pthread_create");
	e = fault_any("pthread_create", EAGAIN);
	if (e) { sim_probe("fault.pthread_create"); sim_hash_u64((uint64_t)e); return e; }
	id = sim_new_pool_fiber(fn, arg);
	if (id < 0) return EAGAIN;
	*thread = (pthread_t)(SIM_PTHREAD_BASE + (unsigned)id);
	sim_log("pthread_create -> fiber %d", id);
	sim_yield("pthread_create.done");
	return 0;
}
static int pred_done(void *arg) { return S.fb[(int)(intptr_t)arg].st == FB_DONE; }
int sim_pthread_join(pthread_t t, void **ret) {
	long id = (long)t - (long)SIM_PTHREAD_BASE;
	sim_yield("pthread_join");
	if (id < 0 || id >= S.nfb) {
		sim_violation("join-invalid", "pthread_join on id %lu which was never returned by pthread_create/pthread_self (zeroed or garbage thread id)", (unsigned long)t);
		return ESRCH;
	}
	if ((int)id == sim_self()) return EDEADLK;
	if (S.fb[id].joined == 2) {
		/* real pthreads: undefined (the descriptor was released by the first join); reported at the end of the run, the call
		 * answers ESRCH so that the run can go on */
		sim_violation_deferred("join-twice", "pthread_join on fiber %ld (%s) whose join already completed (its thread descriptor is gone: undefined behaviour)", id, S.fb[id].name);
		return ESRCH;
	}
	if (S.fb[id].joined == 1) {
		/* glibc: another thread is already waiting to join with this thread */
		sim_probe("pthread_join.concurrent_EINVAL");
		sim_set_context_tag("concurrent-join");
		return EINVAL;
	}
	S.fb[id].joined = 1;
	if (S.fb[id].st != FB_DONE) sim_block(pred_done, (void *)(intptr_t)id, 0, "pthread_join.wait");
	S.fb[id].joined = 2;
	if (S.fb[id].is_pool) S.pool_joined++;
	if (ret) *ret = S.fb[id].ret;
	sim_log("joined fiber %ld", id);
	return 0;
}
pthread_t sim_pthread_self(void) { return (pthread_t)(SIM_PTHREAD_BASE + (unsigned)sim_self()); }
/* Keys are process wide and never run out here (the pool's key is a static of the library that survives from run to
 * run inside a worker; a library that wrongly makes a new key per pool must misbehave the same way in the first run of
 * a fresh process as in the thousandth of an old one). Each thread keeps a handful of (key, value) pairs. */
int sim_pthread_key_create(pthread_key_t *key, void (*dtor)(void *)) {
	(void)dtor;
	*key = (pthread_key_t)(1 + g_nkeys++);
	return 0;
}
void *sim_pthread_getspecific(pthread_key_t key) {
	int c = sim_self();
	if (c < 0 || 0 == key) return NULL;
	for (int i = 0; i < SIM_MAX_KEYS; i++) if (S.fb[c].tls_key[i] == (unsigned)key) return S.fb[c].tls[i];
	return NULL;
}
int sim_pthread_setspecific(pthread_key_t key, const void *val) {
	int c = sim_self(), slot = -1;
	if (c < 0 || 0 == key) return EINVAL;
	for (int i = 0; i < SIM_MAX_KEYS; i++) if (S.fb[c].tls_key[i] == (unsigned)key) { slot = i; break; }
	if (slot < 0) for (int i = 0; i < SIM_MAX_KEYS; i++) if (0 == S.fb[c].tls_key[i] || NULL == S.fb[c].tls[i]) { slot = i; break; }
	if (slot < 0) return ENOMEM;
	S.fb[c].tls_key[slot] = (unsigned)key;
	S.fb[c].tls[slot] = (void *)(uintptr_t)val;
	return 0;
}
int sim_pthread_setaffinity_np(pthread_t t, size_t sz, const void *set) { (void)t; (void)sz; (void)set; return 0; }
int sim_pthread_setname_np(pthread_t t, const char *name) { (void)t; (void)name; return 0; }
int sim_pthread_sigmask(int how, const void *set, void *old) { (void)how; (void)set; (void)old; return 0; }

/* mutex: state lives in the caller's pthread_mutex_t bytes */
typedef struct { uint32_t magic; int owner; int count; int recursive; } sim_mtx_t;
#define MTX_MAGIC 0x4d545831u
#define MTX_DEAD  0xdeadbeefu
int sim_pthread_mutexattr_init(pthread_mutexattr_t *a) { memset(a, 0, sizeof(*a)); return 0; }
int sim_pthread_mutexattr_settype(pthread_mutexattr_t *a, int type) { *(int *)(void *)a = type; return 0; }
int sim_pthread_mutexattr_destroy(pthread_mutexattr_t *a) { (void)a; return 0; }
int sim_pthread_mutex_init(pthread_mutex_t *m, const pthread_mutexattr_t *a) {
	sim_mtx_t *x = (sim_mtx_t *)(void *)m;
	memset(m, 0, sizeof(*m));
	x->magic = MTX_MAGIC; x->owner = -1; x->count = 0;
	x->recursive = (a && *(const int *)(const void *)a == PTHREAD_MUTEX_RECURSIVE);
	return 0;
}
static int pred_mtx_free(void *arg) { sim_mtx_t *x = arg; return x->magic != MTX_MAGIC || x->owner < 0; }
int sim_pthread_mutex_lock(pthread_mutex_t *m) {
	sim_mtx_t *x = (sim_mtx_t *)(void *)m;
	int me = sim_self();
	sim_yield("mutex_lock");
	if (x->magic == MTX_DEAD) { sim_violation("mutex-use-after-destroy", "pthread_mutex_lock on a destroyed mutex %p", (void *)m); return EINVAL; }
	if (x->magic != MTX_MAGIC) { x->magic = MTX_MAGIC; x->owner = -1; x->count = 0; x->recursive = 0; }
	if (x->owner == me) {
		if (!x->recursive) { sim_violation("deadlock", "relock of non-recursive mutex by its owner"); return EDEADLK; }
		x->count++;
		return 0;
	}
	while (x->owner >= 0) {
		sim_probe("mutex.contended");
		sim_block(pred_mtx_free, x, 0, "mutex_lock.wait");
		if (x->magic == MTX_DEAD) { sim_violation("mutex-use-after-destroy", "mutex %p destroyed while a thread waits for it", (void *)m); return EINVAL; }
	}
	x->owner = me; x->count = 1;
	return 0;
}
int sim_pthread_mutex_unlock(pthread_mutex_t *m) {
	sim_mtx_t *x = (sim_mtx_t *)(void *)m;
	/* a thread can lose the CPU while it still holds the lock: whoever looks at the protected data WITHOUT the
	 * lock must be able to see the state inside the critical section */
	sim_yield("mutex_unlock.pre");
	if (x->magic != MTX_MAGIC || x->owner != sim_self()) {
		sim_violation("mutex-misuse", "pthread_mutex_unlock of mutex %p not owned by the caller (magic %x owner %d)", (void *)m, x->magic, x->owner);
		return EPERM;
	}
	if (--x->count == 0) x->owner = -1;
	sim_yield("mutex_unlock");
	return 0;
}
int sim_pthread_mutex_destroy(pthread_mutex_t *m) {
	sim_mtx_t *x = (sim_mtx_t *)(void *)m;
	if (x->magic == MTX_MAGIC && x->owner >= 0) {
		sim_violation("mutex-misuse", "pthread_mutex_destroy of mutex %p while locked by fiber %d", (void *)m, x->owner);
		return EBUSY;
	}
	x->magic = MTX_DEAD;
	return 0;
}

/* ------------------------------------------------------------ time */
uint64_t sim_realtime_offset(void) { return (uint64_t)S.rt_offset; }
void sim_realtime_jump(int64_t delta_ns) { S.rt_offset += delta_ns; }
int sim_clock_gettime(clockid_t clk, struct timespec *ts) {
	uint64_t t;
	/* reading the clock takes time: a loop that polls the clock until a limit passes must terminate even in runs
	 * whose scheduler steps cost no simulated time */
	S.now += 20000;
	t = S.now;
	switch (clk) {
	case CLOCK_REALTIME: case CLOCK_REALTIME_COARSE: t = (uint64_t)((int64_t)S.now + S.rt_offset); break;
	default: break;
	}
	ts->tv_sec = (time_t)(t / 1000000000ull);
	ts->tv_nsec = (long)(t % 1000000000ull);
	return 0;
}
int sim_nanosleep(const struct timespec *req, struct timespec *rem) {
	uint64_t ns;
	if (!req || req->tv_nsec < 0 || req->tv_nsec > 999999999L || req->tv_sec < 0) { errno = EINVAL; return -1; }
	ns = (uint64_t)req->tv_sec * 1000000000ull + (uint64_t)req->tv_nsec;
	sim_sleep_ns(ns, "nanosleep");
	if (rem) { rem->tv_sec = 0; rem->tv_nsec = 0; }
	return 0;
}
int sim_sched_yield(void) { sim_yield_spin("sched_yield"); return 0; }

/* ------------------------------------------------------------ timerfd (eventfd + record) */
sim_timer_rec_t *sim_timer_by_fd(int fd) {
	for (int i = S.ntimers - 1; i >= 0; i--) if (S.timers[i].fd == fd && !S.timers[i].closed) return &S.timers[i];
	return NULL;
}
sim_timer_rec_t *sim_timer_by_ord(int ord) { return (ord >= 0 && ord < S.ntimers) ? &S.timers[ord] : NULL; }
int sim_timer_count(void) { return S.ntimers; }

static uint64_t drain_eventfd(int fd) {
	uint64_t v = 0;
	int e = errno;
	if (8 != read(fd, &v, 8)) v = 0;
	errno = e;
	return v;
}
int sim_timerfd_create(int clk, int flags) {
	int e, fd;
	sim_yield("timerfd_create");
	e = fault_any("timerfd_create", EMFILE);
	if (e) { sim_probe("fault.timerfd_create"); errno = e; return -1; }
	if (clk != CLOCK_REALTIME && clk != CLOCK_MONOTONIC) { errno = EINVAL; return -1; }
	if (flags & ~(TFD_NONBLOCK | TFD_CLOEXEC)) { errno = EINVAL; return -1; }
	int slot = S.ntimers;
	if (slot >= SIM_MAX_TIMERS) {
		/* table full: reuse the record of a timer the code under test has closed (a long connect_ex retry series
		 * creates and closes one timer per attempt); only a table full of LIVE timers is a limit of the simulator */
		slot = -1;
		for (int i = 0; i < S.ntimers; i++) if (S.timers[i].closed) { slot = i; break; }
		if (slot < 0) { sim_violation("sim-limit", "more than %d live timers", SIM_MAX_TIMERS); errno = EMFILE; return -1; }
		sim_probe("sim.timer_record_reused");
	}
	fd = eventfd(0, ((flags & TFD_NONBLOCK) ? EFD_NONBLOCK : 0) | EFD_CLOEXEC);
	if (fd < 0) return -1;
	fd_set_rec(fd, FDK_TIMER, 1);
	sim_timer_rec_t *t = &S.timers[slot];
	memset(t, 0, sizeof(*t));
	t->fd = fd; t->ord = slot; t->clock = clk;
	if (slot == S.ntimers) S.ntimers++;
	S.fd_gen++;
	sim_log("timerfd_create -> timer#%d", t->ord);
	return fd;
}
int sim_timerfd_settime(int fd, int flags, const struct itimerspec *nv, struct itimerspec *ov) {
	int e;
	sim_timer_rec_t *t;
	sim_yield("timerfd_settime");
	t = sim_timer_by_fd(fd);
	if (!t) { errno = (sim_fd(fd) && sim_fd(fd)->kind != FDK_NONE) ? EINVAL : EBADF; return -1; }
	t->settime_calls++;
	e = fault_any("timerfd_settime", EINVAL);
	if (e) { sim_probe("fault.timerfd_settime"); t->last_settime_errno = e; errno = e; return -1; }
	if (!nv) { t->last_settime_errno = EFAULT; errno = EFAULT; return -1; }
	t->last_value_sec = nv->it_value.tv_sec; t->last_value_nsec = nv->it_value.tv_nsec;
	t->last_itv_sec = nv->it_interval.tv_sec; t->last_itv_nsec = nv->it_interval.tv_nsec;
	t->last_flags = flags;
	if ((flags & ~(TFD_TIMER_ABSTIME | TFD_TIMER_CANCEL_ON_SET)) ||
	    nv->it_value.tv_nsec < 0 || nv->it_value.tv_nsec > 999999999L || nv->it_value.tv_sec < 0 ||
	    nv->it_interval.tv_nsec < 0 || nv->it_interval.tv_nsec > 999999999L || nv->it_interval.tv_sec < 0) {
		t->last_settime_errno = EINVAL;
		sim_log("timerfd_settime timer#%d EINVAL (value %lld.%09lld)", t->ord, (long long)nv->it_value.tv_sec, (long long)nv->it_value.tv_nsec);
		errno = EINVAL; return -1;
	}
	t->last_settime_errno = 0;
	if (ov) memset(ov, 0, sizeof(*ov));
	t->discarded += drain_eventfd(fd);
	S.fd_gen++;
	if (nv->it_value.tv_sec == 0 && nv->it_value.tv_nsec == 0) {
		t->armed = 0;
		sim_log("timerfd_settime timer#%d disarm", t->ord);
		sim_hash_u64(0x7d15a);
		return 0;
	}
	{
		uint64_t v = (uint64_t)nv->it_value.tv_sec * 1000000000ull + (uint64_t)nv->it_value.tv_nsec;
		t->abstime = (0 != (flags & TFD_TIMER_ABSTIME));
		if (t->abstime) {
			int64_t mono = (int64_t)v;
			if (t->clock == CLOCK_REALTIME) mono = (int64_t)v - S.rt_offset;
			t->next = (mono <= (int64_t)S.now) ? S.now : (uint64_t)mono;
		} else t->next = S.now + v;
		t->interval = (uint64_t)nv->it_interval.tv_sec * 1000000000ull + (uint64_t)nv->it_interval.tv_nsec;
		t->armed = 1;
		t->last_arm_time = S.now;
		sim_hash_u64(v ^ (t->interval << 1) ^ (uint64_t)flags);
		sim_log("timerfd_settime timer#%d value=%llu itv=%llu abs=%d -> next=%llu", t->ord, (unsigned long long)v, (unsigned long long)t->interval, t->abstime, (unsigned long long)t->next);
	}
	return 0;
}
void sim_timers_fire_due(void) {
	for (int i = 0; i < S.ntimers; i++) {
		sim_timer_rec_t *t = &S.timers[i];
		if (t->closed || !t->armed || t->next > S.now) continue;
		uint64_t n = 1;
		if (t->interval) { n += (S.now - t->next) / t->interval; t->next += n * t->interval; }
		else t->armed = 0;
		t->generated += n;
		{ int e = errno; uint64_t v = n; if (8 != write(t->fd, &v, 8)) { /* counter overflow: ignore */ } errno = e; }
		S.fd_gen++;
		if (sim_trace_on) fprintf(stderr, "[t=%llu] timer#%d fires x%llu\n", (unsigned long long)S.now, t->ord, (unsigned long long)n);
	}
}
uint64_t sim_timers_next(void) {
	uint64_t m = UINT64_MAX;
	for (int i = 0; i < S.ntimers; i++) { sim_timer_rec_t *t = &S.timers[i]; if (!t->closed && t->armed && t->next < m) m = t->next; }
	return m;
}

/* ------------------------------------------------------------ fake children / pidfd */
int sim_child_add(int pid, uint64_t exit_at_ns, int status) {
	if (S.nchildren >= SIM_MAX_CHILDREN) return -1;
	sim_child_t *c = &S.children[S.nchildren++];
	c->pid = pid; c->exit_at = exit_at_ns; c->status = status; c->exited = 0; c->reaped = 0; c->pidfd = -1;
	return 0;
}
void sim_children_fire_due(void) {
	for (int i = 0; i < S.nchildren; i++) {
		sim_child_t *c = &S.children[i];
		if (c->exited || c->exit_at > S.now) continue;
		c->exited = 1;
		if (c->pidfd >= 0) { int e = errno; uint64_t v = 1; (void)!write(c->pidfd, &v, 8); errno = e; S.fd_gen++; }
		if (sim_trace_on) fprintf(stderr, "[t=%llu] child %d exits\n", (unsigned long long)S.now, c->pid);
	}
}
uint64_t sim_children_next(void) {
	uint64_t m = UINT64_MAX;
	for (int i = 0; i < S.nchildren; i++) if (!S.children[i].exited && S.children[i].exit_at < m) m = S.children[i].exit_at;
	return m;
}
long sim_syscall(long nr, long a1, long a2, long a3) {
	(void)a3;
	if (nr == SYS_pidfd_open) {
		int e, fd;
		sim_yield("pidfd_open");
		e = fault_any("pidfd_open", EMFILE);
		if (e) { sim_probe("fault.pidfd_open"); errno = e; return -1; }
		(void)a2;
		for (int i = 0; i < S.nchildren; i++) {
			sim_child_t *c = &S.children[i];
			if (c->pid != (int)a1 || c->reaped) continue;
			fd = eventfd(c->exited ? 1u : 0u, EFD_NONBLOCK | EFD_CLOEXEC);
			if (fd < 0) return -1;
			fd_set_rec(fd, FDK_PIDFD, 1);
			c->pidfd = fd;
			S.fd_gen++;
			return fd;
		}
		errno = ESRCH;
		return -1;
	}
	fprintf(stderr, "lcbsim: unmodelled syscall %ld\n", nr);
	abort();
}
pid_t sim_waitpid(pid_t pid, int *status, int options) {
	(void)options;
	for (int i = 0; i < S.nchildren; i++) {
		sim_child_t *c = &S.children[i];
		if (c->pid != (int)pid || c->reaped) continue;
		if (!c->exited) return 0;
		c->reaped = 1;
		if (status) *status = c->status;
		return pid;
	}
	errno = ECHILD;
	return -1;
}

/* ------------------------------------------------------------ epoll / pipe / read / write / close */
int sim_epoll_create1(int flags) {
	int e, fd;
	sim_yield("epoll_create1");
	e = fault_any("epoll_create1", EMFILE);
	if (e) { sim_probe("fault.epoll_create1"); errno = e; return -1; }
	fd = epoll_create1(flags);
	if (fd >= 0) fd_set_rec(fd, FDK_EPOLL, 1);
	S.fd_gen++;
	return fd;
}
int sim_fd_peer(int fd) { sim_fd_rec_t *r = sim_fd(fd); return (r && (r->kind == FDK_PIPE_R || r->kind == FDK_PIPE_W)) ? r->peer : -1; }
int sim_pipe2(int fds[2], int flags) {
	int e, r;
	sim_yield("pipe2");
	e = fault_any("pipe2", EMFILE);
	if (e) { sim_probe("fault.pipe2"); errno = e; return -1; }
	r = pipe2(fds, flags);
	if (0 == r) {
		fd_set_rec(fds[0], FDK_PIPE_R, 1);
		fd_set_rec(fds[1], FDK_PIPE_W, 1);
		S.fds[fds[0]].peer = fds[1]; S.fds[fds[1]].peer = fds[0];
		if (sim_knobs.pipe_size > 0) fcntl(fds[1], F_SETPIPE_SZ, sim_knobs.pipe_size);
	}
	S.fd_gen++;
	return r;
}
int sim_epoll_ctl(int epfd, int op, int fd, struct epoll_event *ev) {
	int e, r, err;
	sim_yield("epoll_ctl");
	e = fault_any("epoll_ctl", ENOMEM);
	if (e) { sim_probe("fault.epoll_ctl"); if (sim_on_epoll_ctl_hook) sim_on_epoll_ctl_hook(epfd, op, fd, ev ? ev->events : 0, -1, e); errno = e; return -1; }
	r = epoll_ctl(epfd, op, fd, ev);
	err = errno;
	if (r != 0) { if (err == EEXIST) sim_probe("epoll_ctl.EEXIST"); else if (err == ENOENT) sim_probe("epoll_ctl.ENOENT"); }
	sim_hash_u64(((uint64_t)op << 32) ^ (ev ? ev->events : 0) ^ ((uint64_t)(r ? err : 0) << 40));
	sim_log("epoll_ctl(ep#%d, %s, fd#%d, ev=%x) = %d%s%s", sim_fd(epfd) ? sim_fd(epfd)->ord : -1,
	    op == EPOLL_CTL_ADD ? "ADD" : op == EPOLL_CTL_MOD ? "MOD" : "DEL", sim_fd(fd) ? sim_fd(fd)->ord : -1, ev ? ev->events : 0, r, r ? " errno=" : "", r ? strerror(err) : "");
	if (sim_on_epoll_ctl_hook) sim_on_epoll_ctl_hook(epfd, op, fd, ev ? ev->events : 0, r, r ? err : 0);
	S.fd_gen++;
	errno = err;
	return r;
}
int sim_epoll_wait(int epfd, struct epoll_event *evs, int max, int timeout) {
	uint64_t deadline = (timeout > 0) ? S.now + (uint64_t)timeout * 1000000ull : 0;
	sim_yield("epoll_wait");
	for (;;) {
		int e = sim_fault("epoll_wait"), r;
		if (e) { sim_probe("fault.epoll_wait"); sim_hash_u64(0xe0 + (uint64_t)e); errno = e; return -1; }
		r = epoll_wait(epfd, evs, max, 0);
		if (r != 0 || timeout == 0) {
			if (r > 0) S.fd_gen++; /* ONESHOT disarm changes readiness of this epoll fd */
			sim_hash_u64(0xe000 + (uint64_t)(r & 0xff));
			return r;
		}
		if (deadline && S.now >= deadline) return 0;
		sim_block_epoll(epfd, "epoll_wait.park");
		if (deadline && S.now >= deadline) { /* woke by time? fall through to one more try */ }
	}
}
ssize_t sim_read(int fd, void *buf, size_t n) {
	sim_fd_rec_t *r = sim_fd(fd);
	ssize_t rd;
	int err;
	sim_yield("read");
	if (r && r->kind == FDK_PIPE_R) {
		int e = sim_fault("qread");
		if (e) { sim_probe("fault.qread"); sim_hash_u64(0x4ead0 + (uint64_t)e); errno = e; return -1; }
	}
	if (!r || r->kind == FDK_NONE) {
		/* a descriptor the simulation does not know (stale / zeroed): never touch the real process' descriptors */
		sim_probe("read.unknown_fd");
		sim_log("read(%d): not an open descriptor of the simulation -> EBADF", fd);
		errno = EBADF; return -1;
	}
	rd = read(fd, buf, n);
	err = errno;
	if (r && r->kind == FDK_TIMER && rd == 8) {
		sim_timer_rec_t *t = sim_timer_by_fd(fd);
		uint64_t v; memcpy(&v, buf, 8);
		if (t) t->delivered += v;
	}
	if (r && r->kind == FDK_PIPE_R && rd > 0 && sim_on_pipe_io_hook) sim_on_pipe_io_hook(fd, 0, buf, rd);
	if (r && r->kind == FDK_PIPE_R && rd > 32) sim_probe("queue.batch_gt1");
	if (r && r->kind == FDK_PIPE_R && rd == (ssize_t)n && n >= 64) sim_probe("queue.buffer_filled");
	S.fd_gen++;
	sim_hash_u64(0x4ead00000000ull ^ (uint64_t)rd ^ ((uint64_t)(rd < 0 ? err : 0) << 20));
	sim_log("read(fd#%d) = %zd%s%s", r ? r->ord : -1, rd, rd < 0 ? " " : "", rd < 0 ? strerror(err) : "");
	errno = err;
	sim_yield("read.done");
	errno = err;
	return rd;
}
ssize_t sim_write(int fd, const void *buf, size_t n) {
	sim_fd_rec_t *r = sim_fd(fd);
	ssize_t wr;
	int err;
	sim_yield("write");
	if (r && r->kind == FDK_PIPE_W) {
		int e = sim_fault("qwrite");
		if (e) {
			sim_probe("fault.qwrite");
			if (e == EAGAIN) sim_probe("fault.qwrite.EAGAIN"); else if (e == EPIPE) sim_probe("fault.qwrite.EPIPE"); else if (e == EBADF) sim_probe("fault.qwrite.EBADF");
			sim_hash_u64(0x3417e + (uint64_t)e); sim_log("write(fd#%d) injected errno %d", r->ord, e);
			if (sim_self() >= 0) { S.fb[sim_self()].qwrite_fail++; S.fb[sim_self()].qwrite_fail_errno = e; }
			errno = e; return -1;
		}
	}
	wr = write(fd, buf, n);
	err = errno;
	if (wr < 0 && r && r->kind == FDK_PIPE_W) {
		if (err == EAGAIN) sim_probe("queue.natural_eagain");
		if (sim_self() >= 0) { S.fb[sim_self()].qwrite_fail++; S.fb[sim_self()].qwrite_fail_errno = err; }
	}
	if (wr > 0 && r && r->kind == FDK_PIPE_W && sim_on_pipe_io_hook) sim_on_pipe_io_hook(fd, 1, buf, wr);
	S.fd_gen++;
	sim_hash_u64(0x34170000000ull ^ (uint64_t)wr ^ ((uint64_t)(wr < 0 ? err : 0) << 20));
	sim_log("write(fd#%d, %zu) = %zd%s%s", r ? r->ord : -1, n, wr, wr < 0 ? " " : "", wr < 0 ? strerror(err) : "");
	errno = err;
	sim_yield("write.done");
	errno = err;
	return wr;
}
int sim_close(int fd) {
	sim_fd_rec_t *r = sim_fd(fd);
	int kind, rc, err;
	sim_yield("close");
	if (fd < 0) { sim_probe("close.negative_fd"); errno = EBADF; return -1; } /* harmless: close(-1) on an error path */
	if ((!r || r->kind == FDK_NONE) && sim_knobs.tolerate_bad_close) { sim_probe("close.unknown_fd_tolerated"); errno = EBADF; return -1; }
	if (!r || r->kind == FDK_NONE) {
		sim_violation("close-bad-fd", "library closed descriptor %d which is not open in the ledger (double close or stale/zeroed descriptor)", fd);
		errno = EBADF; return -1;
	}
	if (r->kind == FDK_HARNESS) {
		sim_violation("close-foreign", "library closed descriptor %d (fd#%d) which it does not own", fd, r->ord);
		errno = EBADF; return -1;
	}
	kind = r->kind;
	if (kind == FDK_TIMER) {
		sim_timer_rec_t *t = sim_timer_by_fd(fd);
		if (t) { t->discarded += drain_eventfd(fd); t->closed = 1; t->armed = 0; }
	}
	if (kind == FDK_PIDFD) for (int i = 0; i < S.nchildren; i++) if (S.children[i].pidfd == fd) S.children[i].pidfd = -1;
	if (kind == FDK_SOCK) net_on_close(fd);
	sim_log("close(fd#%d kind=%d)", r->ord, kind);
	if (sim_on_close_hook) sim_on_close_hook(fd, kind);
	memset(r, 0, sizeof(*r));
	rc = close(fd);
	err = errno;
	S.fd_gen++;
	sim_hash_u64(0xc105e);
	errno = err;
	return rc;
}


/* ------------------------------------------------------------ simulated network (connect side)
 * AF_INET/AF_INET6 stream sockets of the code under test are AF_UNIX sockets underneath; connect() is answered by a
 * table the harness fills (port -> outcome, delay). A pending connect is a socket whose send buffer the simulator
 * pre-filled (not writable); completion drains the wire end (writable, SO_ERROR 0); refusal closes the wire end with
 * unread data (EPOLLERR|EPOLLHUP, SO_ERROR ECONNRESET). */
#include <netinet/in.h>
enum { NET_NONE = 0, NET_ACCEPT, NET_REFUSE, NET_BLACKHOLE, NET_IMMEDIATE_OK, NET_IMMEDIATE_REFUSE };
#define NET_MAX_EP   16
#define NET_MAX_CONN 64
static struct { int port, mode; uint64_t delay_ns; } g_net_ep[NET_MAX_EP];
static int g_net_nep;
typedef struct { int fd, wire, mode, port, state; uint64_t started, done_at; } net_conn_t; /* state: 1 pending, 2 completed ok, 3 refused, 4 closed */
static net_conn_t g_net_conn[NET_MAX_CONN];
static int g_net_nconn;
void (*sim_on_connect_hook)(int port, int mode, uint64_t now) = NULL;

void sim_net_reset(void) { g_net_nep = 0; g_net_nconn = 0; sim_on_connect_hook = NULL; }
int sim_net_endpoint(int port, int mode, uint64_t delay_ns) {
	if (g_net_nep >= NET_MAX_EP) return -1;
	g_net_ep[g_net_nep].port = port; g_net_ep[g_net_nep].mode = mode; g_net_ep[g_net_nep].delay_ns = delay_ns; g_net_nep++;
	return 0;
}
int sim_net_open_sockets(void) { int n = 0; for (int i = 0; i < g_net_nconn; i++) if (g_net_conn[i].state != 4) n++; return n; }
int sim_net_conn_count(void) { return g_net_nconn; }
static void net_complete(void *arg) {
	net_conn_t *c = arg;
	char buf[4096];
	int e = errno;
	if (c->state != 1) return;
	if (c->mode == NET_ACCEPT) { while (read(c->wire, buf, sizeof(buf)) > 0) { } c->state = 2; sim_log("net: connect to port %d completes", c->port); }
	else { close(c->wire); c->wire = -1; c->state = 3; sim_log("net: connect to port %d refused", c->port); }
	S.fd_gen++;
	errno = e;
}
static int net_connect(int fd, int port) {
	int mode = NET_IMMEDIATE_REFUSE, sv[2], sz = 1024, e;
	uint64_t delay = 0;
	net_conn_t *c;
	char junk[4096];
	for (int i = 0; i < g_net_nep; i++) if (g_net_ep[i].port == port) { mode = g_net_ep[i].mode; delay = g_net_ep[i].delay_ns; }
	if (sim_on_connect_hook) sim_on_connect_hook(port, mode, S.now);
	if (mode == NET_IMMEDIATE_REFUSE || mode == NET_NONE) { errno = ECONNREFUSED; return -1; }
	if (g_net_nconn >= NET_MAX_CONN) { errno = ENOBUFS; return -1; }
	if (0 != socketpair(AF_UNIX, SOCK_STREAM | SOCK_NONBLOCK | SOCK_CLOEXEC, 0, sv)) return -1;
	c = &g_net_conn[g_net_nconn++];
	c->fd = fd; c->wire = sv[1]; c->mode = mode; c->port = port; c->started = S.now; c->state = 1;
	if (mode != NET_IMMEDIATE_OK) {
		setsockopt(sv[0], SOL_SOCKET, SO_SNDBUF, &sz, sizeof(sz));
		memset(junk, 'c', sizeof(junk));
		while (write(sv[0], junk, sizeof(junk)) > 0) { }
		while (write(sv[0], junk, 1) > 0) { }
	}
	e = dup2(sv[0], fd);   /* the placeholder socket becomes the (pending) connection, same descriptor number */
	close(sv[0]);
	if (e < 0) { close(sv[1]); g_net_nconn--; return -1; }
	fd_set_rec(sv[1], FDK_HARNESS, 0);
	S.fd_gen++;
	if (mode == NET_IMMEDIATE_OK) { c->state = 2; return 0; }
	if (mode != NET_BLACKHOLE) { c->done_at = S.now + delay; sim_after(delay, net_complete, c); }
	errno = EINPROGRESS;
	return -1;
}
static void net_on_close(int fd) {
	for (int i = 0; i < g_net_nconn; i++) {
		net_conn_t *c = &g_net_conn[i];
		if (c->fd != fd || c->state == 4) continue;
		if (c->wire >= 0) { close(c->wire); memset(&S.fds[c->wire], 0, sizeof(S.fds[c->wire])); c->wire = -1; }
		c->state = 4;
	}
}

/* ------------------------------------------------------------ sockets: real calls + fault plan */
#define SOCK_SEAM(ret_t, name, site, args_decl, args_call)                      \
ret_t sim_##name args_decl {                                                    \
	ret_t r; int err, e;                                                       \
	sim_yield(site);                                                           \
	e = sim_fault(site);                                                       \
	if (e) { sim_probe("fault." site); sim_hash_u64(0x50c0 + (uint64_t)e); errno = e; return (ret_t)-1; } \
	r = name args_call;                                                        \
	err = errno;                                                               \
	S.fd_gen++;                                                                \
	sim_hash_u64(0x50c00000000ull ^ (uint64_t)(int64_t)r ^ ((uint64_t)((int64_t)r < 0 ? err : 0) << 24)); \
	sim_log(site "(fd#%d) = %lld%s%s", sim_fd(fd) ? sim_fd(fd)->ord : -1, (long long)r, (int64_t)r < 0 ? " " : "", (int64_t)r < 0 ? strerror(err) : ""); \
	errno = err;                                                               \
	sim_yield(site ".done");                                                   \
	errno = err;                                                               \
	return r;                                                                  \
}
/* recv/send additionally take a SHORT-TRANSFER fault: the kernel moves fewer bytes than asked for although more
 * could be moved (legal for any stream socket: memory pressure, a signal, segment boundaries) */
#define SOCK_SEAM_SHORT(name, site, constq)                                     \
ssize_t sim_##name(int fd, constq void *buf, size_t n, int flags) {             \
	ssize_t r; int err, e;                                                     \
	sim_yield(site);                                                           \
	e = sim_fault(site);                                                       \
	if (e) { sim_probe("fault." site); sim_hash_u64(0x50c0 + (uint64_t)e); errno = e; return -1; } \
	e = sim_fault(site ".short");                                              \
	if (e > 0 && n > 1) { n = 1 + (size_t)(e - 1) % (n - 1); sim_probe("fault." site ".short"); sim_hash_u64(0x50c1 + (uint64_t)n); } \
	r = name(fd, buf, n, flags);                                               \
	err = errno;                                                               \
	S.fd_gen++;                                                                \
	sim_hash_u64(0x50c00000000ull ^ (uint64_t)(int64_t)r ^ ((uint64_t)((int64_t)r < 0 ? err : 0) << 24)); \
	sim_log(site "(fd#%d, %zu) = %lld%s%s", sim_fd(fd) ? sim_fd(fd)->ord : -1, n, (long long)r, (int64_t)r < 0 ? " " : "", (int64_t)r < 0 ? strerror(err) : ""); \
	errno = err;                                                               \
	sim_yield(site ".done");                                                   \
	errno = err;                                                               \
	return r;                                                                  \
}
SOCK_SEAM_SHORT(recv, "recv", )
SOCK_SEAM_SHORT(send, "send", const)
SOCK_SEAM(ssize_t, recvfrom, "recvfrom", (int fd, void *buf, size_t n, int flags, struct sockaddr *sa, socklen_t *sl), (fd, buf, n, flags, sa, sl))
SOCK_SEAM(ssize_t, recvmsg, "recvmsg", (int fd, struct msghdr *m, int flags), (fd, m, flags))
/* pread/pwrite take the SHORT-TRANSFER fault too (legal for files: a signal, a quota or a full disk part-way) */
#define FILE_SEAM_SHORT(name, site, constq)                                     \
ssize_t sim_##name(int fd, constq void *buf, size_t n, off_t off) {             \
	ssize_t r; int err, e;                                                     \
	sim_yield(site);                                                           \
	e = sim_fault(site);                                                       \
	if (e) { sim_probe("fault." site); sim_hash_u64(0x50c0 + (uint64_t)e); errno = e; return -1; } \
	e = sim_fault(site ".short");                                              \
	if (e > 0 && n > 1) { n = 1 + (size_t)(e - 1) % (n - 1); sim_probe("fault." site ".short"); sim_hash_u64(0x50c1 + (uint64_t)n); } \
	r = name(fd, buf, n, off);                                                 \
	err = errno;                                                               \
	S.fd_gen++;                                                                \
	sim_hash_u64(0x50c00000000ull ^ (uint64_t)(int64_t)r ^ ((uint64_t)((int64_t)r < 0 ? err : 0) << 24)); \
	sim_log(site "(fd#%d, %zu @%lld) = %lld%s%s", sim_fd(fd) ? sim_fd(fd)->ord : -1, n, (long long)off, (long long)r, (int64_t)r < 0 ? " " : "", (int64_t)r < 0 ? strerror(err) : ""); \
	errno = err;                                                               \
	sim_yield(site ".done");                                                   \
	errno = err;                                                               \
	return r;                                                                  \
}
FILE_SEAM_SHORT(pread, "pread", )
FILE_SEAM_SHORT(pwrite, "pwrite", const)
int sim_connect(int fd, const struct sockaddr *sa, socklen_t sl) {
	int r, err, e;
	sim_yield("connect");
	e = sim_fault("connect");
	if (e) { sim_probe("fault.connect"); errno = e; return -1; }
	if (sa && (sa->sa_family == AF_INET || sa->sa_family == AF_INET6)) {
		int port = (sa->sa_family == AF_INET) ? ntohs(((const struct sockaddr_in *)(const void *)sa)->sin_port) : ntohs(((const struct sockaddr_in6 *)(const void *)sa)->sin6_port);
		r = net_connect(fd, port);
	} else r = connect(fd, sa, sl);
	err = errno;
	S.fd_gen++;
	sim_hash_u64(0xc0ec70000ull ^ (uint64_t)(r < 0 ? err : 0));
	sim_log("connect(fd#%d) = %d%s%s", sim_fd(fd) ? sim_fd(fd)->ord : -1, r, r < 0 ? " " : "", r < 0 ? strerror(err) : "");
	errno = err;
	sim_yield("connect.done");
	errno = err;
	return r;
}
SOCK_SEAM(int, bind, "bind", (int fd, const struct sockaddr *sa, socklen_t sl), (fd, sa, sl))
SOCK_SEAM(int, listen, "listen", (int fd, int backlog), (fd, backlog))

int sim_accept4(int fd, struct sockaddr *sa, socklen_t *sl, int flags) {
	int r, err, e;
	sim_yield("accept4");
	e = sim_fault("accept4");
	if (e) { sim_probe("fault.accept4"); errno = e; return -1; }
	r = accept4(fd, sa, sl, flags);
	err = errno;
	if (r >= 0) { fd_set_rec(r, FDK_SOCK, 1); }
	S.fd_gen++;
	sim_hash_u64(0xacce ^ (uint64_t)(r < 0 ? err : 0));
	errno = err;
	sim_yield("accept4.done");
	errno = err;
	return r;
}
int sim_socket(int dom, int type, int proto) {
	int r, e;
	sim_yield("socket");
	e = fault_any("socket", EMFILE);
	if (e) { errno = e; return -1; }
	if (dom == AF_INET || dom == AF_INET6) { sim_probe("net.inet_socket_emulated"); r = socket(AF_UNIX, type, 0); }
	else r = socket(dom, type, proto);
	if (r >= 0) fd_set_rec(r, FDK_SOCK, 1);
	S.fd_gen++;
	return r;
}
int sim_getsockopt(int fd, int level, int opt, void *val, socklen_t *len) { return getsockopt(fd, level, opt, val, len); }
int sim_setsockopt(int fd, int level, int opt, const void *val, socklen_t len) {
	int r = setsockopt(fd, level, opt, val, len), err = errno;
	if (level == SOL_SOCKET && opt == SO_RCVLOWAT) sim_probe("setsockopt.rcvlowat");
	errno = err;
	return r;
}

/* ------------------------------------------------------------ misc */
long sim_sysconf(int name) {
	if (name == _SC_NPROCESSORS_CONF || name == _SC_NPROCESSORS_ONLN) return sim_knobs.ncpu;
	return sysconf(name);
}
int sim_getdtablesize(void) { return sim_knobs.dtablesize; }
void sim_syslog(int prio, const char *fmt, ...) { (void)prio; (void)fmt; sim_probe("syslog"); }
int sim_raise(int sig) {
	sim_violation("debug-break", "library executed debug_break()/raise(%d): an internal 'must never happen' assertion", sig);
	return 0;
}
void liblcb_verif_yield(const char *site) { sim_yield(site); }

int sim_qwrite_fails(void) { int c = sim_self(); return c >= 0 ? S.fb[c].qwrite_fail : 0; }
int sim_fiber_qfails(int fiber);
int sim_fiber_qfails(int fiber) { return (fiber >= 0 && fiber < S.nfb) ? S.fb[fiber].qwrite_fail : 0; }
int sim_qwrite_fail_errno(void) { int c = sim_self(); return c >= 0 ? S.fb[c].qwrite_fail_errno : 0; }

/* ------------------------------------------------------------ begin/end */
void sim_seams_begin(void) {
	sim_net_reset();
	sim_on_close_hook = NULL;
	sim_on_pipe_io_hook = NULL;
	sim_on_epoll_ctl_hook = NULL;
}
void sim_seams_end(void) {
	/* close everything in the ledger (library-owned and harness-owned) */
	for (int i = 0; i < SIM_MAX_FD; i++) {
		if (S.fds[i].kind != FDK_NONE) { close(i); S.fds[i].kind = FDK_NONE; }
	}
	sim_alloc_reset();
}
