/* vworker: executes simulated runs for one property. See bin/vcheck for the driver. */
#define _GNU_SOURCE 1
#include <stdio.h>
#include <stdlib.h>
#include <string.h>
#include <errno.h>
#include <unistd.h>
#include <fcntl.h>
#include <time.h>
#include <sys/personality.h>
#include <sys/prctl.h>
#include <signal.h>
#include "h.h"

void sim_install_crash_handler(void);

#if defined(__has_feature)
#  if __has_feature(address_sanitizer)
#    define W_ASAN 1
#  endif
#endif
#if defined(__SANITIZE_ADDRESS__)
#  define W_ASAN 1
#endif
#ifdef W_ASAN
__attribute__((used, visibility("default"))) const char *__asan_default_options(void);
const char *__asan_default_options(void) {
	return "exitcode=77:detect_leaks=0:abort_on_error=0:detect_stack_use_after_return=0:allocator_may_return_null=1:handle_segv=1:allow_user_segv_handler=1:halt_on_error=1";
}
__attribute__((used, visibility("default"))) const char *__ubsan_default_options(void);
const char *__ubsan_default_options(void) { return "print_stacktrace=0:halt_on_error=0"; }
#endif

static const harness_t *all_h[] = { &h_c05, &h_c06, &h_c10, &h_c11, &h_c16, &h_c17, &h_c19, NULL };

static const harness_t *find_h(const char *prop) {
	for (int i = 0; all_h[i]; i++) if (0 == strcmp(all_h[i]->prop, prop)) return all_h[i];
	fprintf(stderr, "unknown property %s\n", prop);
	exit(2);
}
static int prop_ord(const char *prop) { return atoi(prop + 1); }

void gen_sched(plan_t *p, rng_t *r, int tier, int allow_pct) {
	int pol = POL_RANDOM;
	(void)tier;
	if (allow_pct && rng_chance(r, 300)) pol = POL_PCT;
	item_set(&p->sched, "policy", pol);
	item_set(&p->sched, "seed", (long long)(rng_next(r) >> 1));
	if (pol == POL_RANDOM) {
		static const int ps[] = { 30, 100, 250, 500, 800, 1000 };
		item_set(&p->sched, "p", ps[rng_below(r, 6)]);
	} else {
		item_set(&p->sched, "d", 1 + (long long)rng_below(r, 3));
		static const int ks[] = { 200, 600, 1500, 4000 };
		item_set(&p->sched, "k", ks[rng_below(r, 4)]);
	}
	item_set(&p->sched, "budget", 60000);
	{
		static const int sn[] = { 0, 100, 1000, 1000, 10000, 100000 };
		item_set(&p->sched, "stepns", sn[rng_below(r, 6)]);
	}
}

static uint64_t run_seed_of(uint64_t verif_seed, const char *prop, uint64_t idx) {
	uint64_t x = verif_seed ^ ((uint64_t)prop_ord(prop) * 0x9e3779b97f4a7c15ULL) ^ (idx * 0xd1342543de82ef95ULL);
	return splitmix64(&x) >> 1;
}

static void gen_plan(const harness_t *h, plan_t *p, uint64_t run_seed, int tier) {
	rng_t r;
	plan_free(p);
	plan_init(p);
	snprintf(p->prop, sizeof(p->prop), "%s", h->prop);
	p->seed = run_seed;
	rng_seed(&r, run_seed);
	h->gen(p, &r, tier);
}

/* access to decisions taken (sim_int.h is private; use accessor) */
int sim_decisions_taken(const short **out);

static FILE *g_in;
static void exec_plan(const harness_t *h, const plan_t *p, sim_result_t *res) {
	sim_begin(p);
	if (h->pre) h->pre(p);
	sim_spawn(h->root, (void *)(uintptr_t)p, "root");
	sim_loop();
	if (h->post && !sim_violated()) h->post(p);
	sim_end(res);
	/* a run may have taken descriptor 0 for the simulated process (C11): put the placeholder back */
	if (-1 == fcntl(0, F_GETFD)) { int n = open("/dev/null", O_RDONLY); if (n > 0) { dup2(n, 0); close(n); } }
}

static void print_plan_prefixed(const plan_t *p, const char *pfx, int with_taken) {
	char *buf = NULL; size_t sz = 0;
	FILE *m = open_memstream(&buf, &sz);
	plan_t tmp;
	const short *d = NULL;
	int nd = 0;
	if (with_taken) {
		/* emit the plan as a replay plan carrying the decisions actually taken */
		tmp = *p;
		nd = sim_decisions_taken(&d);
		tmp.dec = (short *)(uintptr_t)d; tmp.ndec = nd;
		item_set(&tmp.sched, "policy", POL_REPLAY);
		plan_print(&tmp, m, 1);
	} else plan_print(p, m, 1);
	fclose(m);
	char *save = NULL;
	for (char *ln = strtok_r(buf, "\n", &save); ln; ln = strtok_r(NULL, "\n", &save)) printf("%s%s\n", pfx, ln);
	free(buf);
}

static void print_result(const sim_result_t *r) {
	printf("RESULT violated=%d class=%s site=%s time=%llu hash=%016llx steps=%llu simns=%llu interesting=%d switches=%llu\n",
	    r->violated, r->violated ? r->vclass : "-", r->violated ? r->vsite : "-", (unsigned long long)r->vtime,
	    (unsigned long long)r->hash, (unsigned long long)r->steps, (unsigned long long)r->sim_ns, r->interesting,
	    (unsigned long long)r->switches);
	if (r->violated) printf("DETAIL %s\n", r->detail);
}

/* ---- probes aggregation across runs ---- */
#define MAXP 256
static struct { char name[64]; unsigned long long runs, total; } g_probes[MAXP];
static int g_nprobes;
int sim_probes_snapshot(const char **names, unsigned long long *vals, int max);
static void probes_merge(void) {
	const char *names[200]; unsigned long long vals[200];
	int n = sim_probes_snapshot(names, vals, 200);
	for (int i = 0; i < n; i++) {
		int k;
		for (k = 0; k < g_nprobes; k++) if (0 == strcmp(g_probes[k].name, names[i])) break;
		if (k == g_nprobes) { if (g_nprobes >= MAXP) continue; snprintf(g_probes[k].name, sizeof(g_probes[k].name), "%s", names[i]); g_nprobes++; }
		g_probes[k].runs++; g_probes[k].total += vals[i];
	}
}

static double now_s(void) { struct timespec ts; clock_gettime(CLOCK_MONOTONIC, &ts); return (double)ts.tv_sec + (double)ts.tv_nsec * 1e-9; }

static int cmd_batch(int argc, char **argv) {
	if (argc < 10) { fprintf(stderr, "usage: batch prop tier seed start count stride statefile hashfile maxwall\n"); return 2; }
	const harness_t *h = find_h(argv[2]);
	int tier = atoi(argv[3]);
	uint64_t vseed = strtoull(argv[4], NULL, 10);
	uint64_t start = strtoull(argv[5], NULL, 10), count = strtoull(argv[6], NULL, 10), stride = strtoull(argv[7], NULL, 10);
	int sfd = open(argv[8], O_WRONLY | O_CREAT | O_TRUNC, 0644);
	FILE *hf = fopen(argv[9], "wb");
	double maxwall = argc > 10 ? atof(argv[10]) : 1e9, t0 = now_s();
	static plan_t plan;
	unsigned long long runs = 0, viol = 0, interesting = 0, sum_steps = 0, max_steps = 0, sum_simns = 0, sum_sw = 0, sum_dec = 0;
	struct { char cls[64]; int n; } seen[32]; int nseen = 0;
	int samples = 0;
	plan_init(&plan);
	for (uint64_t k = 0; k < count; k++) {
		uint64_t idx = start + k * stride;
		uint64_t rs = run_seed_of(vseed, h->prop, idx);
		sim_result_t res;
		char st[64];
		int n;
		if ((k & 63) == 0 && now_s() - t0 > maxwall) { printf("NOTE wall limit reached after %llu runs\n", runs); break; }
		n = snprintf(st, sizeof(st), "%llu %llu\n                    ", (unsigned long long)idx, (unsigned long long)rs);
		if (sfd >= 0) (void)!pwrite(sfd, st, (size_t)n, 0);
		gen_plan(h, &plan, rs, tier);
		if (start == 0 && samples < 2) { printf("SAMPLE idx=%llu\n", (unsigned long long)idx); print_plan_prefixed(&plan, "S ", 0); samples++; }
		exec_plan(h, &plan, &res);
		runs++;
		probes_merge();
		sum_steps += res.steps; if (res.steps > max_steps) max_steps = res.steps;
		sum_simns += res.sim_ns; sum_sw += res.switches;
		{ const short *d; sum_dec += (unsigned long long)sim_decisions_taken(&d); }
		if (res.interesting) { interesting++; if (hf) fwrite(&res.hash, 8, 1, hf); }
		if ((runs & 255) == 0) {
			/* cumulative snapshot: survives a later crash of this worker */
			printf("SNAP\nSTAT runs=%llu violations=%llu interesting=%llu sum_steps=%llu max_steps=%llu sum_simns=%llu sum_switches=%llu sum_decisions=%llu wall=%.3f\n",
			    runs, viol, interesting, sum_steps, max_steps, sum_simns, sum_sw, sum_dec, now_s() - t0);
			for (int i = 0; i < g_nprobes; i++) printf("PROBE %s %llu %llu\n", g_probes[i].name, g_probes[i].runs, g_probes[i].total);
			fflush(stdout);
			if (hf) fflush(hf);
		}
		if (res.violated) {
			int s;
			viol++;
			char key[64];
			const char *ctx = strstr(res.detail, "[ctx: ");
			snprintf(key, sizeof(key), "%.30s%s%.24s", res.vclass, ctx ? "|" : "", ctx ? ctx + 6 : "");
			for (s = 0; s < nseen; s++) if (0 == strcmp(seen[s].cls, key)) break;
			if (s == nseen && nseen < 32) { snprintf(seen[nseen].cls, 64, "%s", key); seen[nseen].n = 0; nseen++; }
			if (s < 32 && seen[s].n < 6) {
				seen[s].n++;
				printf("VIOL idx=%llu seed=%llu\n", (unsigned long long)idx, (unsigned long long)rs);
				print_result(&res);
				print_plan_prefixed(&plan, "P ", 1);
				printf("ENDVIOL\n");
				fflush(stdout);
			} else {
				printf("VIOLC idx=%llu seed=%llu class=%s detail=%s\n", (unsigned long long)idx, (unsigned long long)rs, res.vclass, res.detail);
			}
			if (0 != strcmp(res.vsite, "deferred")) {
				/* the code under test may have run into undefined behaviour (dangling writes ...): do not let that
				 * contaminate the following runs of this process - hand the rest of the index range to a fresh one */
				printf("SNAP\nSTAT runs=%llu violations=%llu interesting=%llu sum_steps=%llu max_steps=%llu sum_simns=%llu sum_switches=%llu sum_decisions=%llu wall=%.3f\n",
				    runs, viol, interesting, sum_steps, max_steps, sum_simns, sum_sw, sum_dec, now_s() - t0);
				for (int i = 0; i < g_nprobes; i++) printf("PROBE %s %llu %llu\n", g_probes[i].name, g_probes[i].runs, g_probes[i].total);
				printf("RESTART idx=%llu\n", (unsigned long long)idx);
				fflush(stdout);
				if (hf) fclose(hf);
				_exit(79);
			}
		}
	}
	printf("SNAP\nSTAT runs=%llu violations=%llu interesting=%llu sum_steps=%llu max_steps=%llu sum_simns=%llu sum_switches=%llu sum_decisions=%llu wall=%.3f\n",
	    runs, viol, interesting, sum_steps, max_steps, sum_simns, sum_sw, sum_dec, now_s() - t0);
	for (int i = 0; i < g_nprobes; i++) printf("PROBE %s %llu %llu\n", g_probes[i].name, g_probes[i].runs, g_probes[i].total);
	printf("DONE\n");
	fflush(stdout);
	if (hf) fclose(hf);
	return 0;
}

static int cmd_hashes(int argc, char **argv) {
	/* hashes prop tier seed start count stride : one line "idx hash class" per run (determinism self-test) */
	if (argc < 8) return 2;
	const harness_t *h = find_h(argv[2]);
	int tier = atoi(argv[3]);
	uint64_t vseed = strtoull(argv[4], NULL, 10), start = strtoull(argv[5], NULL, 10), count = strtoull(argv[6], NULL, 10), stride = strtoull(argv[7], NULL, 10);
	static plan_t plan;
	plan_init(&plan);
	for (uint64_t k = 0; k < count; k++) {
		uint64_t idx = start + k * stride;
		sim_result_t res;
		gen_plan(h, &plan, run_seed_of(vseed, h->prop, idx), tier);
		exec_plan(h, &plan, &res);
		printf("%llu %016llx-%s-%llu\n", (unsigned long long)idx, (unsigned long long)res.hash, res.violated ? res.vclass : "ok", (unsigned long long)res.steps);
	}
	return 0;
}

static int cmd_serve(int argc, char **argv) {
	if (argc < 3) return 2;
	const harness_t *h = find_h(argv[2]);
	static plan_t plan;
	plan_init(&plan);
	for (;;) {
		sim_result_t res;
		int rc = plan_parse(&plan, g_in);
		if (rc == 1) break;
		if (rc < 0) { printf("ERROR parse\n"); fflush(stdout); continue; }
		exec_plan(h, &plan, &res);
		print_result(&res);
		if (item_get(&plan.sched, "emit", 0)) { print_plan_prefixed(&plan, "P ", 1); }
		printf("ENDRESULT\n");
		fflush(stdout);
	}
	return 0;
}

static int cmd_gen(int argc, char **argv) {
	if (argc < 5) return 2;
	const harness_t *h = find_h(argv[2]);
	static plan_t plan;
	plan_init(&plan);
	gen_plan(h, &plan, strtoull(argv[4], NULL, 10), atoi(argv[3]));
	plan_print(&plan, stdout, 1);
	return 0;
}

static int cmd_replay(int argc, char **argv) {
	if (argc < 3) return 2;
	FILE *f = fopen(argv[2], "r");
	static plan_t plan;
	sim_result_t res;
	if (!f) { perror(argv[2]); return 2; }
	plan_init(&plan);
	if (plan_parse(&plan, f) != 0) { fprintf(stderr, "cannot parse plan %s\n", argv[2]); return 2; }
	fclose(f);
	if (argc > 3) sim_trace_on = atoi(argv[3]);
	exec_plan(find_h(plan.prop), &plan, &res);
	print_result(&res);
	if (argc > 4) print_plan_prefixed(&plan, "P ", 1);
	return res.violated ? 1 : 0;
}

int main(int argc, char **argv) {
	/* fixed address-space layout: when the code under test has undefined behaviour (use after free, dead
	 * stack reads) what it then does depends on addresses; without ASLR a replay sees the same ones */
	if (!getenv("LCBSIM_NOASLR")) {
		int pers = personality(0xffffffff);
		if (pers != -1 && !(pers & ADDR_NO_RANDOMIZE) && -1 != personality(pers | ADDR_NO_RANDOMIZE)) {
			setenv("LCBSIM_NOASLR", "1", 1);
			execv("/proc/self/exe", argv);
		}
		setenv("LCBSIM_NOASLR", "1", 1);
	}
	/* never outlive the driver (a driver killed by a timeout once left workers spinning in an endless loop of a
	 * changed library for hours, starving later runs) */
	prctl(PR_SET_PDEATHSIG, SIGKILL);
	/* descriptor 0 belongs to the simulated process (a daemon without stdin gets number 0 for the first thing it opens:
	 * C11 does that on purpose): our own input moves out of the way, a placeholder keeps 0 taken otherwise */
	{
		int in2 = fcntl(0, F_DUPFD_CLOEXEC, 700);
		if (in2 >= 0) { g_in = fdopen(in2, "r"); close(0); if (0 != open("/dev/null", O_RDONLY)) { /* cannot happen */ } }
		if (!g_in) g_in = stdin;
	}
	setvbuf(stdout, NULL, _IOLBF, 0);
	signal(SIGPIPE, SIG_IGN); /* the pool blocks it in its threads; fibers share one OS thread */
	sim_install_crash_handler();
	if (getenv("LCBSIM_TRACE")) sim_trace_on = atoi(getenv("LCBSIM_TRACE"));
	if (argc < 2) { fprintf(stderr, "usage: vworker batch|serve|gen|replay ...\n"); return 2; }
	if (0 == strcmp(argv[1], "batch")) return cmd_batch(argc, argv);
	if (0 == strcmp(argv[1], "serve")) return cmd_serve(argc, argv);
	if (0 == strcmp(argv[1], "hashes")) return cmd_hashes(argc, argv);
	if (0 == strcmp(argv[1], "gen")) return cmd_gen(argc, argv);
	if (0 == strcmp(argv[1], "replay")) return cmd_replay(argc, argv);
	return 2;
}
