/* Functions of src/utils/sys.c that the compiled repo objects reference; sys.c itself is not
 * compiled (it drags in fork/setuid/daemon code no claimed property touches). Listed in evidence. */
#include <fcntl.h>
#include <errno.h>
int fd_set_cloexec(int fd, int on);
int fd_set_nonblocking(int fd, int on);
int fd_set_cloexec(int fd, int on) {
	int fl = fcntl(fd, F_GETFD);
	if (fl == -1) return errno;
	fl = on ? (fl | FD_CLOEXEC) : (fl & ~FD_CLOEXEC);
	return (-1 == fcntl(fd, F_SETFD, fl)) ? errno : 0;
}
int fd_set_nonblocking(int fd, int on) {
	int fl = fcntl(fd, F_GETFL);
	if (fl == -1) return errno;
	fl = on ? (fl | O_NONBLOCK) : (fl & ~O_NONBLOCK);
	return (-1 == fcntl(fd, F_SETFL, fl)) ? errno : 0;
}
