/* C19: ring-buffer readers see the written stream in order or are told what they lost.
 *
 * The structure is single-threaded by design (one writer, several readers, called from one event loop): a step is
 * atomic and the interleaving of writer and reader steps IS the schedule.  The plan is that interleaving; reader
 * stalls of arbitrary length are runs of writer steps.  Oracle: every written byte is a function of its absolute
 * stream offset and a shadow array records which stream offset each ring byte currently holds. */
#define _GNU_SOURCE 1
#include <stdio.h>
#include <stdlib.h>
#include <string.h>
#include <errno.h>
#include <sys/mman.h>
#include "h.h"
#include "utils/ring_buffer.h"

#define RB_MAXSZ   8192
#define RB_READERS 4
#define GAP        (~(uint64_t)0)
#define IOVN       2048

typedef struct rd {
	r_buf_rpos_t rpos;
	int       inited;
	int       synced;       /* expect is meaningful */
	uint64_t  expect;       /* next stream offset this reader must see */
	int       drop_told;    /* a non-zero dropped amount (or a resynchronisation) was reported since the last successful read */
	int       fresh;        /* no successful read since r_buf_rpos_init */
	uint64_t  init_head;    /* writer's head when the reader was initialised */
	uint64_t  resync_head;  /* stream offset of the writer's head when that report was made: nothing written later may be skipped */
	uint64_t  reads, bytes;
	int       loss_pending; /* the previous call on this cursor reported a loss ... */
	uint64_t  loss_wgen;    /* ... when the writer stood here */
} rd;

static r_buf_p  RBUF;
static uint64_t g_shadow[RB_MAXSZ];
static uint8_t  g_isstart[RB_MAXSZ];   /* this ring byte is the first data byte of a committed block */
static uint64_t S_off;          /* stream offset of the next byte to be committed */
static uint64_t g_round_start;  /* stream offset of the first byte written after the last wrap */
static int      g_committed;
static uint64_t g_wgen;          /* counts writer steps (get, commit): a reader told about a loss is resynchronised, so nothing more can be lost until the writer moves */
static rd       RD[RB_READERS];
static iovec_t  g_iov[IOVN];
static int      g_variable, g_set2;
static size_t   g_size, g_minb, g_B;

static int      g_kf_pre;       /* KF-C19-1 precondition holds for the reader call in progress */

/* reader one round behind, index still ahead of the writer's (so the library serves it), but the writer's BYTE
 * frontier of the current round has already passed the byte position of the block the reader is at */
static int kf_precondition(const r_buf_rpos_t *rp) {
	size_t rb;
	if ((size_t)(rp->round_num + 1) != RBUF->round_num) return 0;
	if (rp->iov_index <= RBUF->iov_index || rp->iov_index > RBUF->iov_index_max) return 0;
	rb = (size_t)(RBUF->iov[rp->iov_index].iov_base - RBUF->buf);
	return RBUF->wpos > rb;
}

static inline uint8_t pat(uint64_t off) { return (uint8_t)(off * 131u + (off >> 8) * 7u + 13u); }

static int in_ring(const uint8_t *p, size_t n) { return p >= RBUF->buf && n <= g_size && p + n <= RBUF->buf + g_size; }

/* ------------------------------------------------------------------ writer */
typedef struct { int valid; uint8_t *buf; size_t want, avail; unsigned x; int offp; } wpend;
static wpend g_pend;   /* a block the writer has obtained but not committed yet (readers may poll in between) */

static int w_get(const item_t *it, int b) {
	uint8_t *buf = NULL;
	size_t want, avail;
	size_t round_before = RBUF->round_num;
	unsigned x = (unsigned)(item_get(it, "seed", 1) * 2654435761u + (unsigned)b * 40503u + (unsigned)S_off);
	if (g_variable) {
		x = x * 1103515245u + 12345u;
		want = g_minb + ((x >> 16) % (g_size / 2 > g_minb ? (g_size / 2 - g_minb + 1) : 1));
		if (item_get(it, "small", 0)) want = g_minb + ((x >> 20) % 3);
		if (want > g_size) want = g_size;
	} else want = g_B;
	g_wgen++;
	avail = r_buf_wbuf_get(RBUF, want, &buf);
	if (avail == 0) { sim_violation("rb-writer", "r_buf_wbuf_get(%zu) returned no space in a ring of %zu bytes", want, g_size); return -1; }
	if (!in_ring(buf, avail)) { sim_violation("rb-range", "r_buf_wbuf_get handed out a region [%p,+%zu) outside the ring storage", (void *)buf, avail); return -1; }
	if (avail < want) { sim_violation("rb-writer", "r_buf_wbuf_get(%zu) returned only %zu bytes", want, avail); return -1; }
	if (RBUF->round_num != round_before) { g_round_start = S_off; sim_probe("c19.wrap"); if (RBUF->round_num == 0) sim_probe("c19.round_counter_wrapped"); }
	g_pend.valid = 1; g_pend.buf = buf; g_pend.want = want; g_pend.avail = avail; g_pend.x = x; g_pend.offp = (int)item_get(it, "offp", 30);
	return 0;
}

static void w_commit(void) {
	uint8_t *buf = g_pend.buf;
	size_t want = g_pend.want, avail = g_pend.avail, off = 0, len = want;
	unsigned x = g_pend.x;
	int rc;
	if (!g_pend.valid) return;
	g_pend.valid = 0;
	if (g_variable) {
		x = x * 1103515245u + 12345u;
		if (((x >> 16) % 100) < (unsigned)g_pend.offp) { off = 1 + ((x >> 8) % 7); if (off + g_minb > avail) off = 0; }
		if (off + len > avail) len = avail - off;
		if (len < g_minb) { off = 0; len = (avail < want) ? avail : want; }
	}
	/* leading gap: garbage that no reader may ever be handed */
	for (size_t i = 0; i < off; i++) { buf[i] = 0xEE; g_shadow[(size_t)(buf - RBUF->buf) + i] = GAP; g_isstart[(size_t)(buf - RBUF->buf) + i] = 0; }
	for (size_t i = 0; i < len; i++) { buf[off + i] = pat(S_off + i); g_shadow[(size_t)(buf - RBUF->buf) + off + i] = S_off + i; g_isstart[(size_t)(buf - RBUF->buf) + off + i] = (i == 0); }
	if (g_set2) rc = r_buf_wbuf_set2(RBUF, buf + off, len, NULL);
	else rc = r_buf_wbuf_set(RBUF, off, off + len);
	if (0 != rc) { sim_violation("rb-writer", "committing a block of %zu bytes (leading offset %zu, %zu available) failed with %d", len, off, avail, rc); return; }
	if (off) sim_probe("c19.frag_commit");
	S_off += len;
	g_committed++; g_wgen++;
}

static void writer_step(const item_t *it) {
	int n = (int)item_get(it, "n", 1);
	if (g_pend.valid) {
		/* finish the block that was left uncommitted; optionally ask for the buffer a second time first */
		if (item_get(it, "reget", 0)) { const item_t *src = it; sim_probe("c19.get_twice"); if (w_get(src, 9999)) return; }
		w_commit();
	}
	for (int b = 0; b < n && !sim_violated(); b++) {
		if (w_get(it, b)) return;
		if (b == n - 1 && item_get(it, "hold", 0)) { sim_probe("c19.reader_between_get_and_commit"); return; } /* readers run before the commit */
		w_commit();
	}
}

/* ------------------------------------------------------------------ reader */
static void reader_fail_or_known(rd *r, int id, size_t rpos_round_before, uint64_t seen, const char *cls, const char *fmt, ...) __attribute__((format(printf, 6, 7)));
static void reader_fail_or_known(rd *r, int id, size_t rpos_round_before, uint64_t seen, const char *cls, const char *fmt, ...) {
	char msg[300];
	va_list ap;
	va_start(ap, fmt);
	vsnprintf(msg, sizeof(msg), fmt, ap);
	va_end(ap);
	(void)id;
	/* known finding KF-C19-1: with blocks of different sizes the reader's lag is judged by block INDEX; a reader one
	 * round behind whose index is still ahead of the writer's is served although the writer's current round has
	 * already overwritten bytes of the blocks it is about to read */
	(void)rpos_round_before; (void)seen;
	if (g_variable && g_kf_pre) {
		sim_violation_deferred("rb-stale-variable", "%s [variable block sizes, reader one round behind, bytes of the writer's current round returned]", msg);
		r->synced = 0; /* resynchronise the model and go on */
		return;
	}
	sim_violation(cls, "%s", msg);
}

/* "a reader that fell behind far enough to be overwritten is resynchronised": the call that reports the loss puts the
 * cursor where the writer is, so the very next call - the writer not having moved - has nothing to report. A cursor
 * that is told about the same loss again and again is not resynchronised (and the reported amounts no longer add up
 * to what was skipped). */
static int loss_again(rd *r, int id, size_t drop, const char *fn) {
	if (!drop) { r->loss_pending = 0; return 0; }
	if (r->loss_pending && r->loss_wgen == g_wgen) {
		sim_violation("rb-not-resynchronised", "reader %d: %s reports %zu dropped byte(s) although the previous call on this cursor had already reported a loss and the writer has not moved since: the cursor was left where it was (index %zu, round %zu; writer index %zu, round %zu)", id, fn, drop,
		    r->rpos.iov_index, r->rpos.round_num, RBUF->iov_index, RBUF->round_num);
		return 1;
	}
	r->loss_pending = 1; r->loss_wgen = g_wgen;
	return 0;
}

static void reader_step(const item_t *it) {
	int id = (int)item_get(it, "id", 0) % RB_READERS;
	rd *r = &RD[id];
	size_t drop = 0, drop2 = 0, got = 0, avail, nio, total = 0, lim, iovn;
	int unlimited;
	size_t round_before;
	if (!r->inited || item_get(it, "reinit", 0)) {
		size_t back = (size_t)item_get(it, "back", 0);
		if (0 != r_buf_rpos_init(RBUF, &r->rpos, back)) { sim_violation("rb-reader", "r_buf_rpos_init failed"); return; }
		r->inited = 1; r->synced = 0; r->drop_told = 0; r->loss_pending = 0;
		r->fresh = 1; r->init_head = S_off;   /* a reader that joins now is owed everything committed from now on */
		sim_probe("c19.rpos_init");
		if (item_get(it, "reinit", 0)) return;
	}
	if (!g_committed) sim_probe("c19.reader_step_on_a_never_written_ring");   /* nothing written yet: the query must say 0 and a read must return nothing */
	if (item_get(it, "probe", 0)) {
		/* the read-only validity probe: whatever it answers, the cursor is the caller's */
		r_buf_rpos_t before = r->rpos;
		(void)r_buf_rpos_check_fast(RBUF, &r->rpos);
		sim_probe("c19.cursor_probe");
		if (0 != memcmp(&before, &r->rpos, sizeof(before))) { sim_violation("rb-probe-moved-cursor", "reader %d: r_buf_rpos_check_fast() changed the cursor it was asked to look at (index %zu->%zu, offset %zu->%zu, round %zu->%zu): the loss it swallowed is never reported", id,
		    before.iov_index, r->rpos.iov_index, before.iov_off, r->rpos.iov_off, before.round_num, r->rpos.round_num); return; }
	}
	round_before = r->rpos.round_num;
	g_kf_pre = kf_precondition(&r->rpos);
	if (g_kf_pre) sim_probe("c19.kf1_precondition");
	avail = r_buf_data_avail_size(RBUF, &r->rpos, &drop);
	if (drop) { r->drop_told = 1; r->resync_head = S_off; sim_probe("c19.drop_reported"); }
	if (loss_again(r, id, drop, "r_buf_data_avail_size")) return;
	{
		size_t lag_rounds = RBUF->round_num - round_before;
		if (lag_rounds == 1) sim_probe("c19.reader_one_round_behind");
		else if (lag_rounds >= 2 && lag_rounds < 1000) sim_probe("c19.reader_2plus_rounds_behind");
	}
	if (avail > g_size) {
		reader_fail_or_known(r, id, round_before, GAP, "rb-avail", "reader %d: r_buf_data_avail_size says %zu bytes are available in a ring of %zu", id, avail, g_size);
		if (sim_violated()) return;
	}
	/* full read: huge limit, ample iovec */
	/* "everything": a huge limit - or the largest value there is (arithmetic on it must not wrap) */
	lim = item_get(it, "lim", 0) ? (size_t)item_get(it, "lim", 0) : (item_get(it, "maxlim", 0) ? SIZE_MAX : ((size_t)1 << 40));
	unlimited = !item_get(it, "lim", 0);
	round_before = r->rpos.round_num;
	g_kf_pre = g_kf_pre || kf_precondition(&r->rpos);
	iovn = item_get(it, "iovn", 0) ? (size_t)item_get(it, "iovn", 0) : IOVN - 8;
	for (size_t i = iovn; i < iovn + 8 && i < IOVN; i++) { g_iov[i].iov_base = (uint8_t *)(uintptr_t)0xC0FFEE; g_iov[i].iov_len = 0xC0FFEE; }
	nio = r_buf_data_get(RBUF, &r->rpos, lim, g_iov, iovn, &drop2, &got);
	for (size_t i = iovn; i < iovn + 8 && i < IOVN; i++)
		if (g_iov[i].iov_base != (uint8_t *)(uintptr_t)0xC0FFEE || g_iov[i].iov_len != 0xC0FFEE) { sim_violation("rb-reader", "reader %d: r_buf_data_get wrote behind the caller's array of %zu regions", id, iovn); return; }
	if (nio > iovn) { sim_violation("rb-reader", "reader %d: r_buf_data_get returned %zu regions for an array of %zu", id, nio, iovn); return; }
	if (drop2) { r->drop_told = 1; r->resync_head = S_off; sim_probe("c19.drop_reported"); }
	if (loss_again(r, id, drop2, "r_buf_data_get")) return;
	sim_log("reader %d: avail=%zu drop=%zu | get lim=%zu -> nio=%zu got=%zu drop2=%zu rpos(idx=%zu off=%zu round=%zu)", id, avail, drop, lim, nio, got, drop2, r->rpos.iov_index, r->rpos.iov_off, r->rpos.round_num);
	if (nio > IOVN) { sim_violation("rb-reader", "r_buf_data_get returned %zu regions for an array of %d", nio, IOVN); return; }
	for (size_t i = 0; i < nio; i++) {
		if (!in_ring(g_iov[i].iov_base, g_iov[i].iov_len)) { sim_violation("rb-range", "reader %d was handed a region [%p,+%zu) outside the ring storage", id, (void *)g_iov[i].iov_base, g_iov[i].iov_len); return; }
		total += g_iov[i].iov_len;
	}
	if (nio > 0 && got != total) { sim_violation("rb-reader", "reader %d: r_buf_data_get reports %zu bytes but the regions add up to %zu", id, got, total); return; }
	if (unlimited && !item_get(it, "iovn", 0) && !drop && !drop2 && nio > 0 && avail != total) {
		reader_fail_or_known(r, id, round_before, GAP, "rb-avail", "reader %d: available-size query said %zu but a full read returned %zu bytes", id, avail, total);
		if (sim_violated()) return;
	}
	if (unlimited && !item_get(it, "iovn", 0) && !drop && !drop2 && (nio == 0 || total == 0) && avail > 0 && !(g_variable && g_kf_pre)) {
		sim_violation("rb-avail", "reader %d: available-size query said %zu but a full read returned nothing", id, avail);
		return;
	}
	if (nio == 0 || total == 0) return;
	/* the bytes: contiguous in the stream, unmodified, in sequence for this reader */
	{
		uint64_t first = GAP, prev = GAP;
		for (size_t i = 0; i < nio; i++) {
			size_t base = (size_t)(g_iov[i].iov_base - RBUF->buf);
			for (size_t b = 0; b < g_iov[i].iov_len; b++) {
				uint64_t so = g_shadow[base + b];
				if (so == GAP) { reader_fail_or_known(r, id, round_before, so, "rb-garbage", "reader %d was handed a byte that is not stream data (a leading gap or never written memory) at ring offset %zu", id, base + b); if (sim_violated()) return; goto resync; }
				if (g_iov[i].iov_base[b] != pat(so)) { sim_violation("rb-garbage", "reader %d: ring byte at offset %zu does not hold the content written there", id, base + b); return; }
				if (first == GAP) first = so;
				else if (so != prev + 1) {
					reader_fail_or_known(r, id, round_before, so > prev ? so : prev, "rb-not-contiguous", "reader %d: one read returned bytes that are not contiguous in the stream (offset %llu follows %llu)", id, (unsigned long long)so, (unsigned long long)prev);
					if (sim_violated()) return;
					goto resync;
				}
				prev = so;
			}
		}
		if (r->fresh && !r->drop_told && first > r->init_head && !(g_variable && g_kf_pre)) {
			reader_fail_or_known(r, id, round_before, first, "rb-skip-after-init", "reader %d: initialised when the writer stood at stream offset %llu; its first read starts at %llu: %llu byte(s) committed after it joined were skipped without a report", id,
			    (unsigned long long)r->init_head, (unsigned long long)first, (unsigned long long)(first - r->init_head));
			if (sim_violated()) return;
		}
		r->fresh = 0;
		if (r->synced) {
			if (first < r->expect) {
				reader_fail_or_known(r, id, round_before, first, "rb-repeat", "reader %d: stream position went backwards (got offset %llu, already consumed up to %llu)", id, (unsigned long long)first, (unsigned long long)r->expect);
				if (sim_violated()) return;
				goto resync;
			}
			if (first > r->expect && !r->drop_told) {
				reader_fail_or_known(r, id, round_before, first, "rb-silent-skip", "reader %d: %llu byte(s) of the stream were skipped (expected offset %llu, got %llu) although no dropped amount was reported", id,
				    (unsigned long long)(first - r->expect), (unsigned long long)r->expect, (unsigned long long)first);
				if (sim_violated()) return;
				goto resync;
			}
			if (first > r->expect) {
				sim_probe("c19.resync_after_drop");
				/* the report covered what was lost up to then; what the writer committed AFTER it is not lost */
				if (first > r->resync_head && !(g_variable && g_kf_pre)) {
					reader_fail_or_known(r, id, round_before, first, "rb-skip-after-resync", "reader %d: a loss was reported when the writer stood at stream offset %llu; the next read starts at %llu: %llu byte(s) committed after the report were skipped without another report", id,
					    (unsigned long long)r->resync_head, (unsigned long long)first, (unsigned long long)(first - r->resync_head));
					if (sim_violated()) return;
					goto resync;
				}
				/* a reader that was told about a loss is put at the start of a block: the ring carries packets, and a
				 * packet without its head is not "the written blocks" */
				if (!(g_variable && g_kf_pre) && !g_isstart[(size_t)(g_iov[0].iov_base - RBUF->buf)]) {
					sim_violation("rb-resync-mid-block", "reader %d: after a reported loss the stream continues at offset %llu, which is inside a written block, not at the start of one", id, (unsigned long long)first);
					return;
				}
			}
		}
		r->synced = 1; r->expect = first; r->drop_told = 0;
		if (g_variable && g_kf_pre) r->synced = 0; /* what this read returned may be bytes of the writer's current round (KF-C19-1): they will legitimately come again */
		r->reads++; r->bytes += total;
		sim_hash_u64(first ^ ((uint64_t)total << 40) ^ ((uint64_t)id << 60));
	}
	/* advance by an arbitrary amount of what was returned */
	{
		size_t adv = total;
		int mode = (int)item_get(it, "adv", 0);
		if (mode == 1) adv = total / 2;
		else if (mode == 2) adv = total ? 1 + (size_t)item_get(it, "advn", 0) % total : 0;
		else if (mode == 3) adv = 0;
		if (adv) { r_buf_rpos_inc(RBUF, &r->rpos, adv); r->expect += adv; if (adv < total) sim_probe("c19.partial_advance"); }
	}
	return;
resync:
	r->synced = 0; r->drop_told = 0; r->fresh = 0;
	r_buf_rpos_inc(RBUF, &r->rpos, total);
}

/* ------------------------------------------------------------------ generator */
static void c19_gen(plan_t *p, rng_t *r, int tier) {
	static const int sizes[] = { 16, 48, 64, 100, 256, 1000, 1024, 4096 };
	static const int minbs[] = { 1, 2, 4, 8, 16, 64 };
	int size = sizes[rng_below(r, (tier == TIER_QUICK) ? 6 : 8)], minb, B, variable = rng_chance(r, 450);
	int readers = 1 + (int)rng_below(r, RB_READERS);
	int nops = (tier == TIER_QUICK) ? (int)rng_range(r, 4, 60) : (int)rng_range(r, 8, 200);
	int blocks_per_round;
	do { minb = minbs[rng_below(r, 6)]; } while (minb * 3 > size);
	B = minb + (int)rng_below(r, (uint64_t)(size / 3 - minb + 1));
	if (rng_chance(r, 300)) B = minb;
	blocks_per_round = size / B; if (blocks_per_round < 1) blocks_per_round = 1;
	item_set(&p->cfg, "size", size);
	item_set(&p->cfg, "minb", minb);
	item_set(&p->cfg, "B", B);
	item_set(&p->cfg, "variable", variable);
	item_set(&p->cfg, "readers", readers);
	item_set(&p->cfg, "set2", rng_chance(r, 200));
	item_set(&p->cfg, "round0", rng_chance(r, 250) ? (long long)(3 - (int)rng_below(r, 3)) : 0); /* start the round counter 1..3 steps before it wraps */
	item_set(&p->sched, "policy", POL_RANDOM);
	item_set(&p->sched, "seed", 1);
	item_set(&p->sched, "p", 0);
	item_set(&p->sched, "budget", 400000);
	item_set(&p->sched, "stepns", 0);
	for (int i = 0; i < nops; i++) {
		unsigned k = (unsigned)rng_below(r, 100);
		op_t *op;
		if (k < 45) {
			int n;
			unsigned m = (unsigned)rng_below(r, 100);
			op = plan_add_op(p, "w");
			/* bursts: a few blocks, about one round, one round +- 1 block, several rounds */
			if (m < 50) n = 1 + (int)rng_below(r, 4);
			else if (m < 70) n = blocks_per_round + (int)rng_range(r, -2, 2);
			else if (m < 85) n = blocks_per_round * 2 + (int)rng_range(r, -2, 2);
			else n = 1 + (int)rng_below(r, (uint64_t)blocks_per_round * 3 + 1);
			if (n < 1) n = 1; if (n > 3000) n = 3000;
			item_set(&op->it, "n", n);
			item_set(&op->it, "seed", (long long)rng_below(r, 1u << 30));
			item_set(&op->it, "hold", rng_chance(r, 250));
			item_set(&op->it, "reget", rng_chance(r, 300));
			if (variable) { item_set(&op->it, "offp", rng_chance(r, 500) ? 0 : (long long)rng_below(r, 60)); item_set(&op->it, "small", rng_chance(r, 300)); }
		} else {
			op = plan_add_op(p, "r");
			item_set(&op->it, "id", (long long)rng_below(r, (uint64_t)readers));
			if (rng_chance(r, 60)) { item_set(&op->it, "reinit", 1); item_set(&op->it, "back", (long long)rng_below(r, (uint64_t)size * 2)); continue; }
			if (rng_chance(r, 250)) item_set(&op->it, "lim", 1 + (long long)rng_below(r, (uint64_t)size + 8));
			if (rng_chance(r, 180)) item_set(&op->it, "iovn", 1 + (long long)rng_below(r, 4));
			item_set(&op->it, "maxlim", rng_chance(r, 400));
			item_set(&op->it, "probe", rng_chance(r, 300));
			item_set(&op->it, "adv", rng_chance(r, 550) ? 0 : 1 + (long long)rng_below(r, 3));
			item_set(&op->it, "advn", (long long)rng_below(r, 1u << 20));
			item_set(&op->it, "back", rng_chance(r, 500) ? 0 : (long long)rng_below(r, (uint64_t)size));
		}
	}
}

static void c19_pre(const plan_t *p) {
	(void)p;
	RBUF = NULL;
	S_off = 0; g_round_start = 0; g_committed = 0; g_wgen = 0;
	memset(&g_pend, 0, sizeof(g_pend));
	memset(RD, 0, sizeof(RD));
	for (int i = 0; i < RB_MAXSZ; i++) g_shadow[i] = GAP;
	memset(g_isstart, 0, sizeof(g_isstart));
}

static void *c19_root(void *arg) {
	const plan_t *p = arg;
	g_size = (size_t)item_get(&p->cfg, "size", 64);
	g_minb = (size_t)item_get(&p->cfg, "minb", 1);
	g_B = (size_t)item_get(&p->cfg, "B", 4);
	g_variable = (int)item_get(&p->cfg, "variable", 0);
	g_set2 = (int)item_get(&p->cfg, "set2", 0);
	if (g_size < 4) g_size = 4; if (g_size > RB_MAXSZ) g_size = RB_MAXSZ;
	if (g_minb < 1) g_minb = 1; if (g_minb * 3 > g_size) g_minb = g_size / 3 ? g_size / 3 : 1;
	if (g_B < g_minb) g_B = g_minb; if (g_B > g_size / 2) g_B = g_size / 2 ? g_size / 2 : 1;
	if (g_B < g_minb) g_B = g_minb;
	sim_set_op(-2);
	RBUF = r_buf_alloc((uintptr_t)-1, g_size, g_minb);
	if (!RBUF) { sim_violation("rb-alloc", "r_buf_alloc(%zu, %zu) failed", g_size, g_minb); return NULL; }
	if (item_get(&p->cfg, "round0", 0)) RBUF->round_num = (size_t)0 - (size_t)item_get(&p->cfg, "round0", 0);
	for (int i = 0; i < p->nops && !sim_violated(); i++) {
		const op_t *op = &p->ops[i];
		sim_set_op(i);
		if (0 == strcmp(op->it.kind, "w")) writer_step(&op->it);
		else reader_step(&op->it);
		sim_hash_u64(S_off ^ ((uint64_t)RBUF->iov_index << 32) ^ ((uint64_t)RBUF->round_num << 48));
		sim_log("after op %d (%s): S=%llu wpos=%zu idx=%zu idx_max=%zu round=%zu flags=%x | r0: idx=%zu off=%zu round=%zu expect=%llu synced=%d", i, op->it.kind, (unsigned long long)S_off,
		    RBUF->wpos, RBUF->iov_index, RBUF->iov_index_max, RBUF->round_num, RBUF->flags, RD[0].rpos.iov_index, RD[0].rpos.iov_off, RD[0].rpos.round_num, (unsigned long long)RD[0].expect, RD[0].synced);
	}
	{
		int any = 0;
		for (int i = 0; i < RB_READERS; i++) if (RD[i].reads > 1) any = 1;
		if (any && g_committed > 2) sim_mark_interesting();
	}
	r_buf_free(RBUF);
	RBUF = NULL;
	return NULL;
}

const harness_t h_c19 = { "C19", c19_gen, c19_pre, c19_root, NULL };
