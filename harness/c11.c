/* C11: pool life cycle is clean: no deadlock, leak, late callback or double hook. */
#define _GNU_SOURCE 1
#include <stdio.h>
#include <stdlib.h>
#include <string.h>
#include <errno.h>
#include <unistd.h>
#include <fcntl.h>
#include "pool.h"

typedef struct c11_state {
	int      inflight;        /* external API calls on the pool currently executing */
	int      destroying;      /* some actor entered tp_destroy (the pool must not be used by others any more) */
	int      attacher;        /* fiber id of the attach_first caller, -1 */
	int      attach_rc;
	int      bystander[2];    /* harness-owned pipe that must survive everything */
	int      shutdown_calls;
	tp_udata_t timers[4];
	int      ntimers;
	int      timer_fired[4];
	int      create_failed;
	int      fibers_before;
	int      dettached;       /* the attached thread called tp_thread_dettach() on itself */
	int      att_destroy;     /* the thread that attached itself as worker 0 destroys the pool after it was released (the usual main() pattern) */
	int      force_external;  /* the caller is known not to be a pool thread (any more), whatever the library's thread-local says */
} c11_state;
static c11_state C;
static char g_cf_names[17][48][28];

static void timer_cb(tp_event_p ev, tp_udata_p u) {
	int i = (int)(u - C.timers);
	pool_w *pw = &W.pool[0];
	(void)ev;
	if (i < 0 || i >= 4) { sim_violation("ev-bad-arg", "timer callback with unknown registration"); return; }
	if (pw->destroyed) { sim_violation("callback-after-destroy", "timer callback ran after tp_destroy returned"); return; }
	C.timer_fired[i]++;
	sim_yield("c11.timer_cb");
}

static int pred_no_inflight(void *arg) { (void)arg; return C.inflight == 0; }

static void c11_exec(const op_t *op, int opidx) {
	const item_t *it = &op->it;
	pool_w *pw = &W.pool[0];
	tpt_p cur = tpt_get_current();
	int is_pool = (cur != NULL) && !C.force_external;
	const char *k = it->kind;
	int rc;
	if (!pw->tp || pw->destroyed) return;
	if (C.destroying && !is_pool) return;     /* an external caller must not use a pool that is being destroyed */
	if (0 == strcmp(k, "destroy")) {
		if (is_pool) {
			rc = tp_destroy(pw->tp);
			sim_probe("c11.destroy_from_pool");
			if (rc != EDEADLK) sim_violation("lc-bad-errno", "tp_destroy called from a pool thread returned %d, documented is EDEADLK(%d)", rc, EDEADLK);
			return;
		}
		/* exclusive: wait until no other external call is inside the pool API, then nobody else may enter */
		if (C.destroying) return;
		if (C.att_destroy && C.attacher >= 0 && !C.force_external) return; /* left to the attached thread */
		C.destroying = 1;
		if (C.inflight) sim_block(pred_no_inflight, NULL, 0, "c11.destroy.wait_inflight");
		if (C.dettached && C.attacher >= 0 && sim_self() != C.attacher && !sim_fiber_done(C.attacher)) {
			/* tp_thread_dettach() marks worker 0 stopped at once, so the pool will not wait for it: the application has
			 * to see its own thread come back from tp_thread_attach_first() before it destroys the pool (first version
			 * of this op did not, and "found" the detaching thread still inside the freed pool) */
			sim_probe("c11.destroy_waits_for_dettached_thread");
			sim_join_fiber(C.attacher);
		}
		if (!pw->shutdown_called) sim_probe("c11.destroy_without_shutdown");
		if (sim_pool_fibers_live() > 0) sim_probe("c11.destroy_with_live_threads");
		sim_log("tp_destroy...");
		rc = tp_destroy(pw->tp);
		sim_log("tp_destroy -> %d", rc);
		if (0 != rc) { sim_violation("lc-bad-errno", "tp_destroy from outside the pool returned %d", rc); return; }
		pw->destroyed = 1;
		pw->destroyed_seq = sim_evseq();
		sim_hash_u64(0xde5720);
		return;
	}
	if (!is_pool) C.inflight++;
	if (0 == strcmp(k, "shutdown")) {
		if (pw->shutdown_called) sim_probe("c11.shutdown_repeated");
		if (is_pool) sim_probe("c11.shutdown_from_pool");
		if (item_get(it, "fullq", 0)) sim_probe("c11.shutdown_while_a_queue_is_being_filled");
		C.shutdown_calls++;
		tp_shutdown(pw->tp);
		pw->shutdown_called = 1;
	} else if (0 == strcmp(k, "swait")) {
		int was_shutdown = pw->shutdown_called;
		if (C.att_destroy && C.attacher >= 0 && !is_pool) {
			/* tp_shutdown_wait() joins worker 0's thread id, which here is an application thread that goes on living
			 * (it destroys the pool next): another thread waiting for it would wait for that thread's exit */
			C.inflight--;
			return;
		}
		rc = tp_shutdown_wait(pw->tp);
		if (is_pool) {
			if (rc != EDEADLK && rc != EBUSY) sim_violation("lc-bad-errno", "tp_shutdown_wait from a pool thread returned %d, documented is EDEADLK", rc);
		} else if (rc == EBUSY) {
			if (was_shutdown) sim_violation("lc-bad-errno", "tp_shutdown_wait returned EBUSY although tp_shutdown had returned before");
			sim_probe("c11.wait_before_shutdown");
		} else if (rc != 0) sim_violation("lc-bad-errno", "tp_shutdown_wait returned %d", rc);
		else sim_probe("c11.shutdown_wait_ok");
	} else if (0 == strcmp(k, "tcreate")) {
		int was_shutdown = pw->shutdown_called;
		if (!was_shutdown) { if (!is_pool) C.inflight--; return; } /* starting threads twice is the caller's error; only the refusal after shutdown is checked */
		rc = tp_threads_create(pw->tp, (int)item_get(it, "skip", 0));
		if (was_shutdown && rc != EBUSY) sim_violation("lc-bad-errno", "tp_threads_create after tp_shutdown returned %d, documented is EBUSY", rc);
	} else if (0 == strcmp(k, "send")) {
		int dst = (int)item_get(it, "dst", 0);
		if (dst >= pw->n) dst = pw->n - 1;
		msg_rec *m = world_new_msg(opidx, item_get(it, "ns", 0) ? MK_STALL : MK_PLAIN, 0, dst, (uint32_t)item_get(it, "flags", 0));
		m->stall_ns = (uint64_t)item_get(it, "ns", 0);
		world_send(m, NULL);
	} else if (0 == strcmp(k, "flood")) {
		int dst = (int)item_get(it, "dst", 0), n = (int)item_get(it, "n", 10);
		if (dst >= pw->n) dst = pw->n - 1;
		for (int i = 0; i < n && !sim_violated() && !pw->destroyed; i++) {
			msg_rec *m = world_new_msg(opidx, MK_PLAIN, 0, dst, 0);
			world_send(m, NULL);
		}
	} else if (0 == strcmp(k, "bcast")) {
		size_t s, f;
		extern void world_bc_noise_cb(tpt_p tpt, void *udata);
		tpt_msg_bsend_ex(pw->tp, NULL, (uint32_t)item_get(it, "flags", 0), world_bc_noise_cb, pw, &s, &f);
	} else if (0 == strcmp(k, "timer")) {
		int t = (int)item_get(it, "dst", 0);
		if (t >= pw->n) t = pw->n - 1;
		if (C.ntimers < 4 && !pw->shutdown_called) {
			int slot = C.ntimers++;     /* reserve first: two actors may register timers concurrently */
			tp_udata_p u = &C.timers[slot];
			memset(u, 0, sizeof(*u));
			u->cb_func = timer_cb;
			u->ident = (uintptr_t)(100 + slot);
			rc = tpt_ev_add_args(pw->thr[t], TP_EV_TIMER, 0, TP_FF_T_MSEC, (uint64_t)item_get(it, "ms", 5), u);
			(void)rc;
		}
	} else if (0 == strcmp(k, "dettach")) {
		/* the thread that attached itself as worker 0 leaves the pool again, from one of its own callbacks */
		if (is_pool && C.attacher >= 0 && cur == pw->thr[0] && sim_self() == C.attacher && !C.destroying) { /* not while another thread destroys the pool */
			C.dettached = 1;
			rc = tp_thread_dettach(cur);
			sim_probe("c11.dettach_by_attached_thread");
			if (0 != rc) sim_violation("lc-bad-errno", "tp_thread_dettach returned %d", rc);
		}
	} else if (0 == strcmp(k, "wait")) {
		sim_sleep_ns((uint64_t)item_get(it, "ns", 1000), "actor.wait");
	}
	if (!is_pool) C.inflight--;
}

void world_bc_noise_cb(tpt_p tpt, void *udata);
void world_bc_noise_cb(tpt_p tpt, void *udata) {
	pool_w *pw = udata;
	(void)tpt;
	if (pw->destroyed) sim_violation("callback-after-destroy", "broadcast callback ran after tp_destroy returned");
	sim_yield("c11.bc_cb");
}

static int pred_attached(void *arg) {
	pool_w *pw = arg;
	return sim_fiber_done(C.attacher) || pw->destroyed || C.destroying || tpt_is_running(pw->thr[0]);
}
static void *attacher_main(void *arg) {
	pool_w *pw = &W.pool[0];
	(void)arg;
	sim_set_op(-3);
	C.attach_rc = tp_thread_attach_first(pw->tp);
	if (0 != C.attach_rc) {
		/* refused (the pool was shut down before the thread got in): this thread never was a worker; the pool is
		 * destroyed by whoever owns the final destroy */
		if (C.attach_rc != EBUSY && C.attach_rc != ESPIPE) sim_violation("lc-bad-errno", "tp_thread_attach_first returned %d", C.attach_rc);
		C.att_destroy = 0;
		pw->never_started[0] = 1;
		sim_probe("c11.attach_refused");
	}
	sim_log("attach_first returned %d", C.attach_rc);
	if (C.att_destroy && 0 == C.attach_rc && !sim_violated() && !pw->destroyed) {
		/* back from the pool: this thread is an ordinary caller again and tears the pool down */
		op_t d; memset(&d, 0, sizeof(d)); item_kind(&d.it, "destroy");
		sim_probe("c11.destroy_by_attached_thread");
		C.force_external = 1;
		c11_exec(&d, -1);
		C.force_external = 0;
	}
	return NULL;
}

static void *c11_actor(void *arg) {
	int a = (int)(intptr_t)arg;
	const plan_t *p = W.plan;
	pool_w *pw = &W.pool[0];
	for (int i = 0; i < p->nops && !sim_violated(); i++) {
		const op_t *op = &p->ops[i];
		int via = (int)item_get(&op->it, "via", -1);
		if ((int)item_get(&op->it, "actor", 0) != a) continue;
		if (0 == strcmp(op->it.kind, "create") || 0 == strcmp(op->it.kind, "attach")) continue; /* root's */
		if (!pw->tp || pw->destroyed || C.destroying) break;
		sim_set_op(i);
		if (via >= 0) {
			if (via >= pw->n) via = pw->n - 1;
			C.inflight++;
			world_send_carrier(i, 0, via);
			C.inflight--;
		} else c11_exec(op, i);
		sim_yield("actor.next");
	}
	return NULL;
}

/* ------------------------------------------------------------------ generator */
static void c11_gen(plan_t *p, rng_t *r, int tier) {
	static const int nq[] = { 1, 1, 2, 2, 3, 3, 4, 5, 6 };
	static const int nt[] = { 1, 2, 3, 4, 6, 8, 12, 16 };
	int n = (tier == TIER_QUICK) ? nq[rng_below(r, 9)] : nt[rng_below(r, 8)];
	int actors = 1 + (int)rng_below(r, 3);
	int cls = (int)rng_below(r, 100);   /* run class */
	int skip = rng_chance(r, 300);
	op_t *op;
	item_set(&p->cfg, "threads", n);
	item_set(&p->cfg, "actors", actors);
	item_set(&p->cfg, "bind", rng_chance(r, 500));
	item_set(&p->cfg, "cloexec", rng_chance(r, 500));
	item_set(&p->cfg, "hooks", rng_chance(r, 920));
	item_set(&p->cfg, "pipe", rng_chance(r, 300) ? 4096 : 65536);
	gen_sched(p, r, tier, 1);
	op = plan_add_op(p, "create");
	item_set(&op->it, "actor", 0);
	if (cls < 28) {
		/* creation fails at the k-th failable seam call; K = 5 + 5n calls in a fault-free create */
		item_t *f = op_add_fault(op, "any");
		item_set(f, "nth", 1 + (long long)rng_below(r, (uint64_t)(5 + 5 * n + 2)));
		item_set(&p->cfg, "retry", rng_chance(r, 500));
	}
	op = plan_add_op(p, "tcreate");
	item_set(&op->it, "actor", 0);
	item_set(&op->it, "skip", skip);
	item_set(&op->it, "setup", 1);
	if (rng_chance(r, 250)) {
		item_t *f = op_add_fault(op, "pthread_create");
		int mode = (int)rng_below(r, 3);
		item_set(f, "nth", 1 + (long long)rng_below(r, (uint64_t)n));
		if (mode == 0) { item_set(f, "err", EPERM); }
		else if (mode == 1) { item_set(f, "err", EAGAIN); item_set(f, "count", 1 + (long long)rng_below(r, 3)); }
		else { item_set(f, "err", EAGAIN); item_set(f, "count", 20); }
	}
	if (skip && rng_chance(r, 700)) { op = plan_add_op(p, "attach"); item_set(&op->it, "actor", 0); item_set(&p->cfg, "attdestroy", rng_chance(r, 500)); }
	item_set(&p->cfg, "waitstart", rng_chance(r, 400));
	item_set(&p->cfg, "fd0", rng_chance(r, 80));
	item_set(&p->cfg, "pool2", rng_chance(r, 100));
	if (rng_chance(r, 60)) item_set(&p->cfg, "hookshut", 1 + (long long)rng_below(r, (uint64_t)n + 1));
	int first_traffic = p->nops;
	if (rng_chance(r, 50)) {
		/* shutdown against a FULL queue: a worker is held in a callback, its (small) queue is filled to the brim and
		 * shutdown is called meanwhile - the shutdown message has to get through once the worker drains its queue */
		int a = (int)rng_below(r, (uint64_t)actors), d = (int)rng_below(r, (uint64_t)n);
		item_set(&p->cfg, "pipe", 4096);
		/* the caller's retry loop is really executed, 2 us a step: a worker held for 8..40 ms outlasts thousands of tries */
		item_set(&p->sched, "stepns", 2000); item_set(&p->sched, "spinreal", 40000); item_set(&p->sched, "budget", 400000);
		op = plan_add_op(p, "send");
		item_set(&op->it, "actor", a); item_set(&op->it, "dst", d); item_set(&op->it, "flags", 0);
		item_set(&op->it, "ns", (long long)rng_range(r, 8000000, 40000000)); item_set(&op->it, "via", -1);
		op = plan_add_op(p, "wait");
		item_set(&op->it, "actor", a); item_set(&op->it, "ns", (long long)rng_range(r, 100000, 2000000));
		op = plan_add_op(p, "flood");
		item_set(&op->it, "actor", a); item_set(&op->it, "dst", d); item_set(&op->it, "n", (long long)rng_range(r, 130, 200)); item_set(&op->it, "via", -1);
		op = plan_add_op(p, "shutdown");
		item_set(&op->it, "actor", rng_chance(r, 600) ? a : (long long)rng_below(r, (uint64_t)actors)); item_set(&op->it, "via", -1);
		item_set(&op->it, "fullq", 1);
	}
	{
		int ntraffic = (int)rng_below(r, (tier == TIER_QUICK) ? 8 : 16);
		int nshut = (int)rng_below(r, 4);            /* explicit shutdown calls (0 = destroy does it) */
		int total = ntraffic + nshut + (int)rng_below(r, 3);
		int shut_left = nshut;
		for (int i = 0; i < total; i++) {
			unsigned k = (unsigned)rng_below(r, 100);
			int late = (i * 100 / (total ? total : 1));
			if (shut_left > 0 && (int)rng_below(r, 100) < late / 2 + 10) {
				op = plan_add_op(p, "shutdown");
				item_set(&op->it, "actor", (long long)rng_below(r, (uint64_t)actors));
				item_set(&op->it, "via", rng_chance(r, 400) ? (long long)rng_below(r, (uint64_t)n) : -1);
				shut_left--;
				continue;
			}
			if (k < 30) {
				op = plan_add_op(p, "send");
				item_set(&op->it, "actor", (long long)rng_below(r, (uint64_t)actors));
				item_set(&op->it, "dst", rng_chance(r, 150) ? -1 : (long long)rng_below(r, (uint64_t)n));
				item_set(&op->it, "flags", rng_chance(r, 300) ? (long long)rng_below(r, 8) : 0);
				if (rng_chance(r, 300)) item_set(&op->it, "ns", (long long)rng_range(r, 1000, 30000000));
				item_set(&op->it, "via", rng_chance(r, 300) ? (long long)rng_below(r, (uint64_t)n) : -1);
			} else if (k < 40) {
				op = plan_add_op(p, "flood");
				item_set(&op->it, "actor", (long long)rng_below(r, (uint64_t)actors));
				item_set(&op->it, "dst", rng_chance(r, 150) ? -1 : (long long)rng_below(r, (uint64_t)n));
				item_set(&op->it, "n", (long long)rng_range(r, 3, 200));
				item_set(&op->it, "via", rng_chance(r, 200) ? (long long)rng_below(r, (uint64_t)n) : -1);
			} else if (k < 52) {
				op = plan_add_op(p, "bcast");
				item_set(&op->it, "actor", (long long)rng_below(r, (uint64_t)actors));
				item_set(&op->it, "flags", rng_chance(r, 500) ? 0 : TP_BMSG_F_SELF_SKIP);
				item_set(&op->it, "via", rng_chance(r, 400) ? (long long)rng_below(r, (uint64_t)n) : -1);
			} else if (k < 62) {
				op = plan_add_op(p, "timer");
				item_set(&op->it, "actor", (long long)rng_below(r, (uint64_t)actors));
				item_set(&op->it, "dst", (long long)rng_below(r, (uint64_t)n));
				item_set(&op->it, "ms", (long long)rng_range(r, 1, 40));
				item_set(&op->it, "via", rng_chance(r, 500) ? (long long)rng_below(r, (uint64_t)n) : -1);
			} else if (k < 72) {
				op = plan_add_op(p, "wait");
				item_set(&op->it, "actor", (long long)rng_below(r, (uint64_t)actors));
				item_set(&op->it, "ns", (long long)rng_range(r, 1, 30000000));
			} else if (k < 80) {
				op = plan_add_op(p, "swait");
				item_set(&op->it, "actor", (long long)rng_below(r, (uint64_t)actors));
				item_set(&op->it, "via", rng_chance(r, 400) ? (long long)rng_below(r, (uint64_t)n) : -1);
			} else if (k < 86) {
				op = plan_add_op(p, "destroy");   /* from a pool thread: must be refused */
				item_set(&op->it, "actor", (long long)rng_below(r, (uint64_t)actors));
				item_set(&op->it, "via", (long long)rng_below(r, (uint64_t)n));
			} else if (k < 92) {
				op = plan_add_op(p, "tcreate");
				item_set(&op->it, "actor", (long long)rng_below(r, (uint64_t)actors));
				item_set(&op->it, "skip", 1);
				item_set(&op->it, "late", 1);
			} else {
				op = plan_add_op(p, "shutdown");
				item_set(&op->it, "actor", (long long)rng_below(r, (uint64_t)actors));
				item_set(&op->it, "via", rng_chance(r, 400) ? (long long)rng_below(r, (uint64_t)n) : -1);
			}
		}
	}
	if (item_has(&p->cfg, "attdestroy") && rng_chance(r, 350) && p->nops > first_traffic) {
		/* the attached thread detaches itself at some point of the traffic */
		int at = first_traffic + (int)rng_below(r, (uint64_t)(p->nops - first_traffic));
		op_t tmp;
		op = plan_add_op(p, "dettach");
		item_set(&op->it, "actor", (long long)rng_below(r, (uint64_t)actors));
		item_set(&op->it, "via", 0);
		tmp = p->ops[at]; p->ops[at] = p->ops[p->nops - 1]; p->ops[p->nops - 1] = tmp;
	}
	/* the final destroy: by a random actor, after its other ops */
	op = plan_add_op(p, "destroy");
	item_set(&op->it, "actor", (long long)rng_below(r, (uint64_t)actors));
	item_set(&op->it, "via", -1);
}

/* ------------------------------------------------------------------ run */
static void c11_pre(const plan_t *p) {
	world_reset(p);
	W.msg_oracle = 0;
	sim_knobs.pipe_size = (int)item_get(&p->cfg, "pipe", 65536);
	world_op_exec = c11_exec;
	memset(&C, 0, sizeof(C));
	C.attacher = -1;
	C.bystander[0] = C.bystander[1] = -1;
}

static void check_no_residue(pool_w *pw, const char *what) {
	int fds = 0, tmr = 0;
	for (int fd = 0; fd < SIM_MAX_FD; fd++) {
		sim_fd_rec_t *r = sim_fd(fd);
		if (!r || r->kind == FDK_NONE || !r->by_lib) continue;
		if (r->kind == FDK_TIMER) { tmr++; continue; }   /* user-owned registrations are the user's to delete */
		fds++;
	}
	if (fds != pw->fds_before) {
		sim_violation("lc-fd-leak", "%s: %d descriptor(s) opened by the pool are still open (before create: %d, now: %d)", what, fds - pw->fds_before, pw->fds_before, fds);
		return;
	}
	if ((int)sim_lib_allocs_live() != pw->allocs_before) {
		sim_violation("lc-mem-leak", "%s: %d allocation(s) made by the pool are still live (%zu bytes)", what, (int)sim_lib_allocs_live() - pw->allocs_before, sim_lib_alloc_bytes_live());
		return;
	}
}

static void *c11_root(void *arg) {
	const plan_t *p = arg;
	pool_w *pw = &W.pool[0];
	int n = (int)item_get(&p->cfg, "threads", 2);
	int actors = (int)item_get(&p->cfg, "actors", 1), ids[MAX_ACTORS];
	int hooks = (int)item_get(&p->cfg, "hooks", 1);
	uint32_t fl = (item_get(&p->cfg, "bind", 0) ? TP_S_F_BIND2CPU : 0) | (item_get(&p->cfg, "cloexec", 0) ? TP_S_F_CLOEXEC : 0);
	int rc, tries = 0, create_op = -1, tcreate_op = -1, attach_op = -1;
	if (n < 1) n = 1; if (n > MAX_THR) n = MAX_THR;
	if (actors < 1) actors = 1; if (actors > MAX_ACTORS) actors = MAX_ACTORS;
	for (int i = 0; i < p->nops; i++) {
		if (create_op < 0 && 0 == strcmp(p->ops[i].it.kind, "create")) create_op = i;
		if (tcreate_op < 0 && 0 == strcmp(p->ops[i].it.kind, "tcreate") && item_get(&p->ops[i].it, "setup", 0)) tcreate_op = i;
		if (attach_op < 0 && 0 == strcmp(p->ops[i].it.kind, "attach")) attach_op = i;
	}
	if (create_op < 0) return NULL;
	/* bystander descriptors around the pool's: must survive everything */
	if (0 == pipe2(C.bystander, O_NONBLOCK | O_CLOEXEC)) { sim_fd_note_harness(C.bystander[0]); sim_fd_note_harness(C.bystander[1]); }
	C.fibers_before = sim_pool_fibers_created();
	if (hooks && p->ops[create_op].nfaults == 0) { int hs = (int)item_get(&p->cfg, "hookshut", 0); W.hook_shutdown_idx1 = (hs > n + 1) ? n + 1 : hs; }
	if (item_get(&p->cfg, "fd0", 0)) {
		/* a process without stdin (daemons close 0, 1, 2): the first descriptor the pool opens gets number 0 */
		close(0);
		sim_probe("c11.descriptor_0_free_at_create");
	}
again:
	sim_set_op(tries == 0 ? create_op : -2);
	{
		int calls0 = sim_seam_calls_failable();
		rc = world_create_pool(0, n, fl, hooks);
		if (tries == 0 && p->ops[create_op].nfaults > 0) {
			int k = (int)item_get(&p->ops[create_op].faults[0], "nth", 0);
			if (0 != rc && n <= 16 && k < 48) { snprintf(g_cf_names[n][k], sizeof(g_cf_names[n][k]), "c11.createfail.n%d.k%d", n, k); sim_probe(g_cf_names[n][k]); }
		}
		if (0 == rc && tries == 0) { char *nm = g_cf_names[0][n]; snprintf(nm, 28, "c11.create_calls.n%d=%d", n, sim_seam_calls_failable() - calls0); sim_probe(nm); }
	}
	if (sim_violated()) return NULL;
	if (0 != rc) {
		sim_probe("c11.create_failed");
		C.create_failed = 1;
		if (p->ops[create_op].nfaults == 0 || tries > 0) { sim_violation("lc-create-failed", "tp_create failed (%d) without an injected fault", rc); return NULL; }
		/* nothing may be left behind */
		check_no_residue(pw, "after a failed tp_create");
		if (sim_violated()) return NULL;
		if (sim_pool_fibers_created() != C.fibers_before) { sim_violation("lc-thread-leak", "a failed tp_create started a thread"); return NULL; }
		if (hooks) {
			if (pw->hook_bad) { sim_violation("lc-hook-imbalance", "a failed tp_create ran a hook on a thread object that is not (or no longer) part of the pool"); return NULL; }
			if (pw->stop_cnt[n] != pw->start_cnt[n]) {
				sim_violation("lc-hook-imbalance", "a failed tp_create ran the virtual thread's start hook %d time(s) and its stop hook %d time(s)", pw->start_cnt[n], pw->stop_cnt[n]);
				return NULL;
			}
		}
		sim_mark_interesting();
		if (!item_get(&p->cfg, "retry", 0)) goto out;
		tries++;
		goto again;
	}
	if (hooks && pw->start_cnt[n] != 1) { sim_violation("lc-hook-imbalance", "tp_create ran the virtual thread's start hook %d times", pw->start_cnt[n]); return NULL; }
	if (tcreate_op >= 0) {
		sim_set_op(tcreate_op);
		world_start_threads(0, (int)item_get(&p->ops[tcreate_op].it, "skip", 0));
	}
	if (item_get(&p->cfg, "pool2", 0) && !pw->shutdown_called) {
		/* a second pool comes and goes while the first one runs (two subsystems of one process): the first pool's
		 * threads must keep their identity (deadlock guards, self-sends) and nothing of the second may stay behind */
		int rc2;
		sim_set_op(-2);
		rc2 = world_create_pool(1, 1, 0, 0);
		if (0 != rc2) { sim_violation("lc-create-failed", "tp_create of a second pool failed (%d) without an injected fault", rc2); return NULL; }
		world_start_threads(1, 0);
		rc2 = tp_destroy(W.pool[1].tp);
		W.pool[1].tp = NULL; W.pool[1].destroyed = 1;
		if (0 != rc2) { sim_violation("lc-bad-errno", "tp_destroy of the second pool returned %d", rc2); return NULL; }
		sim_probe("c11.second_pool_came_and_went");
	}
	C.att_destroy = (int)item_get(&p->cfg, "attdestroy", 0);
	if (attach_op >= 0 && pw->never_started[0]) {
		C.attacher = sim_spawn(attacher_main, NULL, "attacher");
		pw->never_started[0] = 0;
		sim_probe("c11.attach_first");
		/* the attaching thread must be inside the pool before anybody else may shut it down / destroy it
		 * (calling tp_thread_attach_first() on a pool that is being destroyed is the caller's error) */
		sim_block(pred_attached, pw, 0, "c11.wait_attached");
	}
	sim_set_op(-2);
	if (item_get(&p->cfg, "waitstart", 0) && hooks) world_wait_threads_running(0);
	for (int a = 0; a < actors; a++) { char nm[16]; snprintf(nm, sizeof(nm), "actor%d", a); ids[a] = sim_spawn(c11_actor, (void *)(intptr_t)a, nm); }
	for (int a = 0; a < actors; a++) sim_join_fiber(ids[a]);
	if (sim_violated()) return NULL;
	if (!pw->destroyed && C.att_destroy && C.attacher >= 0) {
		/* release the attached thread (it destroys the pool itself) */
		sim_set_op(-2);
		if (!pw->shutdown_called && !C.destroying) { C.inflight++; tp_shutdown(pw->tp); pw->shutdown_called = 1; C.inflight--; } /* (a detached thread may already be destroying the pool) */
		sim_join_fiber(C.attacher);
		if (sim_violated()) return NULL;
	}
	if (!pw->destroyed) {
		/* the actor owning the final destroy bailed out early (cannot happen) or it was skipped: do it here */
		op_t d; memset(&d, 0, sizeof(d)); item_kind(&d.it, "destroy");
		C.destroying = 0;
		sim_set_op(-2);
		c11_exec(&d, -1);
		if (sim_violated()) return NULL;
	}
	/* ---- after tp_destroy returned 0 ---- */
	W.teardown = 1;
	if (sim_pool_fibers_live() > 0) {
		sim_violation("lc-thread-outlives-destroy", "%d pool thread(s) are still running after tp_destroy returned", sim_pool_fibers_live());
		return NULL;
	}
	if (C.attacher >= 0 && !sim_fiber_done(C.attacher)) {
		sim_violation("lc-thread-outlives-destroy", "the thread attached with tp_thread_attach_first is still inside the pool after tp_destroy returned");
		return NULL;
	}
	check_no_residue(pw, "after tp_destroy");
	if (sim_violated()) return NULL;
	if (hooks) {
		if (pw->hook_bad) { sim_violation("lc-hook-imbalance", "a hook ran on a thread object that is not (or no longer) part of the pool"); return NULL; }
		for (int i = 0; i <= n; i++) {
			if (pw->start_cnt[i] > 1 || pw->stop_cnt[i] != pw->start_cnt[i]) {
				sim_violation("lc-hook-imbalance", "thread %d%s: start hook ran %d time(s), stop hook ran %d time(s)", i, i == n ? " (virtual)" : "", pw->start_cnt[i], pw->stop_cnt[i]);
				return NULL;
			}
		}
	}
	/* let anything that is still pending (there must be nothing) show itself */
	sim_fair_finish();
	sim_wait_idle(2000000000ull);
	sim_mark_interesting();
	/* evaluated last on purpose (known finding KF-C11-1 must not hide the other oracles of a run) */
	if (sim_pool_fibers_unjoined() > 0) {
		sim_violation_deferred("lc-thread-unjoined", "%d pool thread(s) exited but were never joined (thread resources leak until process exit)", sim_pool_fibers_unjoined());
	}
out:
	/* bystanders intact? */
	if (C.bystander[1] >= 0) {
		char c = 'x', d = 0;
		if (1 != write(C.bystander[1], &c, 1) || 1 != read(C.bystander[0], &d, 1) || d != 'x')
			sim_violation("close-foreign", "a descriptor owned by the application stopped working during the pool's life cycle");
		sim_fd_activity();
	}
	return NULL;
}

const harness_t h_c11 = { "C11", c11_gen, c11_pre, c11_root, NULL };
