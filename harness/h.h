#ifndef LCB_HARNESS_H
#define LCB_HARNESS_H

#include "../sim/sim.h"

typedef struct harness {
	const char *prop;
	/* fill cfg + ops (+ optionally sched overrides) from the generator stream */
	void  (*gen)(plan_t *p, rng_t *r, int tier);
	/* main context, before the root fiber is spawned: knobs, world reset */
	void  (*pre)(const plan_t *p);
	/* root fiber body */
	void *(*root)(void *plan);
	/* main context, after the loop ended and before sim_end(): ledger checks; may call sim_violation */
	void  (*post)(const plan_t *p);
} harness_t;

extern const harness_t h_c05, h_c06, h_c10, h_c11, h_c16, h_c17, h_c19;

#define TIER_QUICK    0
#define TIER_THOROUGH 1

/* shared helpers (worker.c) */
void gen_sched(plan_t *p, rng_t *r, int tier, int allow_pct);

#endif
