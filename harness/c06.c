/* C06: event and timer registrations fire exactly as their flags and units say. */
#define _GNU_SOURCE 1
#include <stdio.h>
#include <stdlib.h>
#include <string.h>
#include <errno.h>
#include <unistd.h>
#include <fcntl.h>
#include <sys/socket.h>
#include <sys/epoll.h>
#include "pool.h"

enum { RK_PIPE_R = 0, RK_PIPE_W, RK_SOCK_R, RK_SOCK_W, RK_TIMER, RK_PROC, RK_NKINDS };
#define MAX_REG 4

typedef struct reg {
	tp_udata_t u;
	int      slot, kind, thr;       /* thr == pool.n : the shared virtual thread */
	int      fd, peer;
	int      created;               /* harness objects exist */
	/* model */
	int      registered, enabled;
	uint16_t flags;
	int      late_allowed;          /* firings tolerated after a disable/delete issued from OUTSIDE the owning thread */
	long     unread;
	int      peer_closed, peer_reset;
	int      eof_seen, err_seen;
	int      wr_full;               /* write kinds: the pipe/socket is full (not writable) */
	int      fire_count, fire_since_arm;
	int      wr_budget;             /* persistent write event: callback disables itself after this many firings */
	/* timer model */
	uint64_t exp_value_ns, exp_itv_ns;
	int      t_abstime;
	uint64_t sum_data;
	int      tfd_seen;
	int      timer_ord;
	/* proc */
	int      pid, status;
	uint64_t exit_at;
	int      relaxed;               /* registered on the virtual thread: served by any worker, conservation not exact */
	uint64_t close_seq, arm_seq;    /* event sequence numbers of the peer close and of the last (re)arming */
	int      outside_inflight;      /* a control call issued from OUTSIDE the owning thread is executing */
	int      fuzzy;                 /* an event fired while such a call was in flight: which arming it belongs to is undecidable */
	int      ctl_busy;              /* a control call on this registration is executing (two concurrent ones are the caller's race) */
} reg;

static reg R[MAX_REG];
static int g_outside_ctl;           /* control calls issued from outside the owning thread so far */
static int g_ctl_calls;             /* epoll_ctl / timerfd calls seen by the seams (for "nothing installed") */
static pool_w *PW;

static void on_epoll_ctl(int epfd, int op, int fd, uint32_t events, int ret, int err) {
	(void)epfd; (void)op; (void)fd; (void)events; (void)ret; (void)err;
	g_ctl_calls++;
}

static int is_read_kind(int k) { return k == RK_PIPE_R || k == RK_SOCK_R; }
static int is_write_kind(int k) { return k == RK_PIPE_W || k == RK_SOCK_W; }
static uint16_t kind_event(int k) { return is_read_kind(k) ? TP_EV_READ : is_write_kind(k) ? TP_EV_WRITE : (k == RK_TIMER) ? TP_EV_TIMER : TP_EV_PROC; }
static tpt_p reg_tpt(reg *r) { return (r->thr >= PW->n) ? PW->pvt : PW->thr[r->thr]; }
static int on_owner(reg *r) {
	tpt_p cur = tpt_get_current();
	if (!cur) return 0;
	if (r->relaxed) return (PW->n == 1 && cur == PW->thr[0]); /* a registration on the virtual thread has no owner - unless the pool has a single worker */
	return cur == reg_tpt(r);
}

static uint64_t unit_ns(uint32_t ff) {
	switch (ff & TP_FF_T_TM_MASK) {
	case TP_FF_T_SEC: return 1000000000ull;
	case TP_FF_T_MSEC: return 1000000ull;
	case TP_FF_T_USEC: return 1000ull;
	default: return 1ull;
	}
}

/* ------------------------------------------------------------------ callback */
static void ev_cb(tp_event_p ev, tp_udata_p u) {
	reg *r = (reg *)(void *)u;
	tpt_p cur = tpt_get_current();
	if ((uintptr_t)u < (uintptr_t)&R[0] || (uintptr_t)u >= (uintptr_t)&R[MAX_REG] || 0 != (((uintptr_t)u - (uintptr_t)&R[0]) % sizeof(reg))) {
		sim_violation("ev-bad-arg", "event callback invoked with a user-data pointer %p that was never registered", (void *)u);
		return;
	}
	sim_hash_u64(0xe7000000ull + ((uint64_t)r->slot << 16) + ev->flags);
	sim_log("ev fire slot=%d kind=%d event=%u flags=%x fflags=%x data=%llu", r->slot, r->kind, ev->event, ev->flags, ev->fflags, (unsigned long long)ev->data);
	if (r->relaxed) {
		if (!cur || tpt_get_tp(cur) != PW->tp || cur == PW->pvt) { sim_violation("ev-wrong-thread", "event of slot %d (virtual thread) ran outside the pool's workers", r->slot); return; }
	} else if (cur != reg_tpt(r)) {
		sim_violation("ev-wrong-thread", "event of slot %d registered on thread %d ran on another thread", r->slot, r->thr);
		return;
	}
	if (r->kind == RK_TIMER) r->sum_data += ev->data;
	if (r->outside_inflight && !r->fuzzy) { r->fuzzy = 1; sim_probe("ev.fuzzy_outside_race"); }
	if (r->fuzzy) {
		/* the statement promises nothing about events racing with a control call from another thread except memory safety */
		if (is_read_kind(r->kind) && r->unread > 0) { char c; if (1 == read(r->fd, &c, 1)) r->unread--; sim_fd_activity(); }
		sim_log("fuzzy fire slot=%d ctl_busy=%d tpdata=%llx unread=%ld", r->slot, r->ctl_busy, (unsigned long long)r->u.tpdata, r->unread);
		if (!r->ctl_busy) {
			/* stop level-triggered storms (end of stream, always-writable descriptor) like any user callback would */
			r->ctl_busy = 1;
			if ((ev->flags & (TP_F_EOF | TP_F_ERROR)) && is_read_kind(r->kind) && r->unread == 0) { r->registered = 0; r->enabled = 0; tpt_ev_del_args1(TP_EV_READ, &r->u); }
			if (is_write_kind(r->kind)) { r->enabled = 0; tpt_ev_enable_args1(0, TP_EV_WRITE, &r->u); }
			r->ctl_busy = 0;
		}
		return;
	}
	if (!r->registered || !r->enabled) {
		if (r->relaxed && r->ctl_busy) sim_probe("ev.pvt_fire_during_ctl"); /* another worker is still inside the control call */
		else if (r->late_allowed > 0) { r->late_allowed--; sim_probe("ev.late_after_outside_ctl"); }
		else {
			sim_violation(r->registered ? "ev-fired-disabled" : "ev-fired-deleted", "slot %d (kind %d flags %x%s): callback ran although the event is %s (the call that made it so had returned%s)",
			    r->slot, r->kind, r->flags, r->relaxed ? ", virtual thread" : "", r->registered ? "disabled" : "deleted / spent one-shot", r->relaxed ? "" : " on the owning thread");
			return;
		}
		if (is_read_kind(r->kind) && r->unread > 0) { char c; if (1 == read(r->fd, &c, 1)) r->unread--; sim_fd_activity(); }
		return;
	}
	if (ev->event != kind_event(r->kind)) { sim_violation("ev-wrong-kind", "slot %d: callback got event kind %u, registered %u", r->slot, ev->event, kind_event(r->kind)); return; }
	r->fire_count++;
	r->fire_since_arm++;
	if ((r->flags & (TP_F_ONESHOT | TP_F_DISPATCH)) && r->fire_since_arm > 1) {
		sim_violation("ev-oneshot-twice", "slot %d (flags %x): fired %d times for one arming", r->slot, r->flags, r->fire_since_arm);
		return;
	}
	if (r->flags & TP_F_ONESHOT) { r->registered = 0; r->enabled = 0; }
	else if (r->flags & TP_F_DISPATCH) { r->enabled = 0; }
	if (r->kind == RK_PROC) { r->registered = 0; r->enabled = 0; }
	switch (r->kind) {
	case RK_PIPE_R: case RK_SOCK_R: {
		int eof = 0 != (ev->flags & TP_F_EOF), er = 0 != (ev->flags & TP_F_ERROR);
		if ((eof || er) && !r->peer_closed) { sim_violation("ev-false-eof", "slot %d: callback got EOF/ERROR flags (%x) although the peer is open", r->slot, ev->flags); return; }
		if (r->unread > 0) {
			char c = 0;
			ssize_t rd = read(r->fd, &c, 1);
			sim_fd_activity();
			if (rd == 1) r->unread--;
			else if (!r->relaxed && !r->peer_reset) { sim_violation("ev-spurious", "slot %d: read event fired but no byte could be read (model expects %ld unread)", r->slot, r->unread); return; }
			else if (r->peer_reset) r->unread = 0;
		} else if (!eof && !er) {
			if (r->relaxed) { sim_probe("ev.pvt_herd_spurious"); break; }
			sim_violation("ev-spurious", "slot %d: read event fired with nothing to read and without EOF/ERROR flags", r->slot);
			return;
		}
		if (eof) { r->eof_seen = 1; sim_probe("ev.eof_seen"); }
		if (er) {
			r->err_seen = 1; sim_probe("ev.error_seen");
			if (0 == ev->fflags) { sim_violation("ev-error-code", "slot %d: TP_F_ERROR without an error code in fflags", r->slot); return; }
		}
		if ((eof || er) && r->unread == 0 && r->registered && r->enabled) {
			/* end of stream: a persistent level-triggered registration would fire forever; delete it like any user does */
			int rc;
			if (r->ctl_busy) { r->fuzzy = 1; break; }
			r->ctl_busy = 1;
			r->registered = 0; r->enabled = 0;
			if (r->relaxed) r->late_allowed = 2 * PW->n;
			rc = tpt_ev_del_args1(TP_EV_READ, &r->u);
			r->ctl_busy = 0;
			if (rc != 0 && !r->relaxed) { sim_violation("ev-ctl-failed", "slot %d: deleting the registration after EOF failed with %d", r->slot, rc); return; }
		}
		break;
	}
	case RK_PIPE_W: case RK_SOCK_W: {
		int er = 0 != (ev->flags & (TP_F_ERROR | TP_F_EOF));
		if (er && !r->peer_closed) { sim_violation("ev-false-eof", "slot %d: write event got EOF/ERROR flags (%x) although the peer is open", r->slot, ev->flags); return; }
		if (!er && r->peer_closed && r->close_seq && r->arm_seq > r->close_seq && !r->relaxed) {
			/* armed after the peer had gone: what makes it fire is the error/hang-up condition, and it must say so */
			sim_violation("ev-missed-eof", "slot %d (kind %d): write event armed after the peer closed fired without TP_F_EOF/TP_F_ERROR (flags %x)", r->slot, r->kind, ev->flags);
			return;
		}
		if (!er && r->wr_full) {
			if (r->relaxed) { sim_probe("ev.pvt_herd_spurious"); break; }
			sim_violation("ev-spurious", "slot %d: write event fired although the descriptor is full", r->slot); return;
		}
		if (er) { r->err_seen = 1; sim_probe("ev.error_seen"); }
		if (r->registered && r->enabled && (er || --r->wr_budget <= 0)) {
			/* persistent write event on a writable descriptor fires forever: stop it from inside (owning thread) */
			int rc;
			if (r->ctl_busy) { r->fuzzy = 1; break; }
			r->ctl_busy = 1;
			if (er) r->registered = 0;
			r->enabled = 0;
			if (r->relaxed) r->late_allowed = 2 * PW->n; /* other workers may already hold the event */
			rc = er ? tpt_ev_del_args1(TP_EV_WRITE, &r->u) : tpt_ev_enable_args1(0, TP_EV_WRITE, &r->u);
			r->ctl_busy = 0;
			if (rc != 0 && !r->relaxed) { sim_violation("ev-ctl-failed", "slot %d: disabling the write event from its callback failed with %d", r->slot, rc); return; }
		}
		break;
	}
	case RK_TIMER:
		/* end-of-stream / error flags and an error code belong to the descriptor that has the condition, not to
		 * whatever event the thread serves next */
		if ((ev->flags & (TP_F_EOF | TP_F_ERROR)) || ev->fflags != 0) { sim_violation("ev-spurious-flags", "slot %d: timer callback carries flags %x / filter flags %x (a timer has no end of stream and no socket error)", r->slot, ev->flags, ev->fflags); return; }
		if (ev->data < 1 && !r->fuzzy) { sim_violation("ev-timer-count", "slot %d: timer callback with expiration count 0", r->slot); return; }
		if (ev->data > 1) sim_probe("ev.timer_coalesced");
		break;
	case RK_PROC:
		if ((ev->flags & (TP_F_EOF | TP_F_ERROR)) || (ev->fflags & ~(uint32_t)TP_FF_P_EXIT)) { sim_violation("ev-spurious-flags", "slot %d: process callback carries flags %x / filter flags %x", r->slot, ev->flags, ev->fflags); return; }
		if (!(ev->fflags & TP_FF_P_EXIT)) { sim_violation("ev-proc-flags", "slot %d: process event without TP_FF_P_EXIT", r->slot); return; }
		if ((int)ev->data != r->status) { sim_violation("ev-proc-status", "slot %d: process exit status %d reported, %d expected", r->slot, (int)ev->data, r->status); return; }
		if (sim_now() < r->exit_at) { sim_violation("ev-spurious", "slot %d: process event before the child exited", r->slot); return; }
		break;
	}
	sim_yield("ev.cb");
}

/* ------------------------------------------------------------------ harness objects */
static void reg_create(reg *r, int kind, int thr, const item_t *it) {
	int p[2];
	memset(r, 0, sizeof(*r));
	r->ctl_busy = 1; /* held by the add that creates the slot */
	r->slot = (int)(r - R); r->kind = kind; r->thr = thr;
	r->relaxed = (thr >= PW->n);
	r->fd = r->peer = -1;
	r->u.cb_func = ev_cb;
	r->wr_budget = 1 + (int)item_get(it, "wb", 2);
	r->timer_ord = -1;
	switch (kind) {
	case RK_PIPE_R: case RK_PIPE_W:
		if (0 != pipe2(p, O_NONBLOCK | O_CLOEXEC)) { sim_violation("sim-limit", "pipe2 failed in the harness"); return; }
		sim_fd_note_harness(p[0]); sim_fd_note_harness(p[1]);
		if (kind == RK_PIPE_R) { r->fd = p[0]; r->peer = p[1]; } else { r->fd = p[1]; r->peer = p[0]; }
		break;
	case RK_SOCK_R: case RK_SOCK_W:
		if (0 != socketpair(AF_UNIX, SOCK_STREAM | SOCK_NONBLOCK | SOCK_CLOEXEC, 0, p)) { sim_violation("sim-limit", "socketpair failed in the harness"); return; }
		sim_fd_note_harness(p[0]); sim_fd_note_harness(p[1]);
		r->fd = p[0]; r->peer = p[1];
		break;
	case RK_TIMER:
		r->u.ident = (uintptr_t)(0x7000 + r->slot);
		break;
	case RK_PROC:
		r->pid = 4000 + r->slot;
		r->status = (int)item_get(it, "status", 0) & 0xff00;
		r->exit_at = sim_now() + (uint64_t)item_get(it, "exitns", 1000000);
		sim_child_add(r->pid, r->exit_at, r->status);
		r->u.ident = (uintptr_t)r->pid;
		break;
	}
	if (r->fd >= 0) r->u.ident = (uintptr_t)r->fd;
	if (is_write_kind(kind) && item_get(it, "full", 0)) {
		/* fill the descriptor completely so that it is not writable */
		char buf[4096];
		memset(buf, 'f', sizeof(buf));
		if (kind == RK_PIPE_W) fcntl(r->fd, F_SETPIPE_SZ, 4096);
		while (write(r->fd, buf, sizeof(buf)) > 0) { }
		while (write(r->fd, buf, 1) > 0) { }
		r->wr_full = 1;
		sim_fd_activity();
	}
	r->created = 1;
}

/* expected programming of the simulated timerfd after a successful arm */
static void timer_model_arm(reg *r, uint16_t fl, uint32_t ff, uint64_t data) {
	uint64_t un = unit_ns(ff);
	r->exp_value_ns = data * un;
	r->exp_itv_ns = (fl & (TP_F_ONESHOT | TP_F_DISPATCH)) ? 0 : r->exp_value_ns;
	r->t_abstime = 0 != (ff & TP_FF_T_ABSTIME);
}
static void timer_check_programmed(reg *r, const char *what, uint64_t t_before) {
	int tfd = (int)(r->u.tpdata & 0xffffffffu);
	sim_timer_rec_t *t = sim_timer_by_fd(tfd);
	if (!t) { sim_violation("ev-timer-program", "slot %d: %s returned 0 but no timer object is installed", r->slot, what); return; }
	r->timer_ord = t->ord;
	if (r->exp_value_ns == 0) {
		if (t->armed) sim_violation("ev-timer-program", "slot %d: %s with value 0 left the timer armed", r->slot, what);
		return;
	}
	if (!t->armed) { sim_violation("ev-timer-program", "slot %d: %s returned 0 but the timer is not armed (value %llu ns expected)", r->slot, what, (unsigned long long)r->exp_value_ns); return; }
	if (t->interval != r->exp_itv_ns) {
		sim_violation("ev-timer-program", "slot %d: %s programmed interval %llu ns, expected %llu ns (flags %x)", r->slot, what, (unsigned long long)t->interval, (unsigned long long)r->exp_itv_ns, r->flags);
		return;
	}
	if (!r->t_abstime) {
		uint64_t got = t->next - t->last_arm_time;
		if (got != r->exp_value_ns || t->last_arm_time < t_before) {
			sim_violation("ev-timer-program", "slot %d: %s programmed first expiry after %llu ns, expected exactly %llu ns", r->slot, what, (unsigned long long)got, (unsigned long long)r->exp_value_ns);
			return;
		}
	} else {
		int64_t mono = (int64_t)r->exp_value_ns - (int64_t)sim_realtime_offset();
		uint64_t exp = (mono <= (int64_t)t->last_arm_time) ? t->last_arm_time : (uint64_t)mono;
		if (t->next != exp) {
			sim_violation("ev-timer-program", "slot %d: %s (absolute) programmed expiry at %llu, expected %llu", r->slot, what, (unsigned long long)t->next, (unsigned long long)exp);
			return;
		}
		if (t->clock != 0 /* CLOCK_REALTIME */) sim_probe("ev.timer_abstime_on_monotonic");
	}
}

/* ------------------------------------------------------------------ ops */
static void note_ctl_from(reg *r) {
	/* a control call that silences the event: strict when issued on the owning thread */
	r->late_allowed = on_owner(r) ? 0 : (r->relaxed ? PW->n : 1);
}

static int pred_ctl_free(void *arg) { return !((reg *)arg)->ctl_busy; }
static void c06_ctl(const op_t *op, reg *r, int slot);
static void c06_other(const op_t *op, reg *r, int slot);

static void c06_exec(const op_t *op, int opidx) {
	const item_t *it = &op->it;
	const char *k = it->kind;
	int slot = (int)item_get(it, "r", 0) % MAX_REG;
	reg *r = &R[slot];
	(void)opidx;
	if (0 == strcmp(k, "wait")) { sim_sleep_ns((uint64_t)item_get(it, "ns", 1000), "actor.wait"); return; }
	if (0 == strcmp(k, "add") || 0 == strcmp(k, "enable") || 0 == strcmp(k, "disable") || 0 == strcmp(k, "del") || 0 == strcmp(k, "reopen")) {
		if (r->ctl_busy) sim_block(pred_ctl_free, r, 0, "c06.ctl_wait");
		r->ctl_busy = 1;
		if (r->created && !on_owner(r)) {
			/* a control call from another thread than the owner: from here on the statement promises only memory safety
			 * for this registration (what fires when relative to the call is a race by design) */
			r->outside_inflight = 1; g_outside_ctl++; sim_knobs.tolerate_bad_close = 1;
			if (!r->fuzzy) { r->fuzzy = 1; sim_probe("ev.slot_fuzzy_after_outside_ctl"); }
			sim_set_context_tag("outside-thread-control"); /* precondition of known finding KF-C06-1 */
		}
		c06_ctl(op, r, slot);
		r->outside_inflight = 0;
		r->ctl_busy = 0;
		return;
	}
	c06_other(op, r, slot);
}

#define CTLV(...) do { if (!r->fuzzy) sim_violation(__VA_ARGS__); else sim_probe("ev.ctl_result_in_fuzzy_slot"); } while (0)
static void c06_ctl(const op_t *op, reg *r, int slot) {
	const item_t *it = &op->it;
	const char *k = it->kind;
	int rc, faulted = 0;
	if (0 == strcmp(k, "add")) {
		uint16_t fl = (uint16_t)item_get(it, "fl", 0);
		uint32_t ff = (uint32_t)item_get(it, "ff", 0);
		uint64_t data = (uint64_t)item_get(it, "data", 0), t0 = sim_now();
		if (r->created) return; /* one registration per slot and run */
		reg_create(r, (int)item_get(it, "kind", 0) % RK_NKINDS, (int)item_get(it, "thr", 0) % (PW->n + 1), it);
		if (sim_violated() || !r->created) return;
		if (r->kind == RK_PROC) { fl &= (TP_F_ONESHOT | TP_F_DISPATCH); ff = 0; data = 0; } /* a process event ends with the process whatever the flags say */
		if (r->kind == RK_TIMER && r->relaxed && !item_get(it, "pvtt", 0)) { r->thr = 0; r->relaxed = 0; } /* most timers live on a real thread; "pvtt": on the shared virtual thread */
		if (r->kind != RK_TIMER) { if (is_read_kind(r->kind) || is_write_kind(r->kind)) ff &= TP_FF_RW_MASK; }
		if (r->kind == RK_TIMER && (ff & TP_FF_T_ABSTIME)) data += (sim_realtime_offset() + sim_now()) / unit_ns(ff);
		if (r->kind == RK_TIMER && r->relaxed && PW->n > 1) sim_set_context_tag("timer-on-virtual-thread"); /* precondition of known finding KF-C06-3 */
		/* the registration may fire before the call returns (it is live as soon as it is installed) */
		r->registered = 1; r->enabled = 1; r->flags = fl; r->fire_since_arm = 0; r->late_allowed = 0;
		r->arm_seq = sim_evseq();
		if (r->kind == RK_TIMER) timer_model_arm(r, fl, ff, data);
		{ int ff0 = sim_fault_fired_op(sim_get_op()); rc = tpt_ev_add_args(reg_tpt(r), kind_event(r->kind), fl, ff, data, &r->u); faulted = sim_fault_fired_op(sim_get_op()) > ff0; }
		sim_log("add slot=%d kind=%d thr=%d fl=%x ff=%x data=%llu -> %d%s", slot, r->kind, r->thr, fl, ff, (unsigned long long)data, rc, faulted ? " (injected fault)" : "");
		if (faulted) {
			/* a system call inside the registration failed (injected): the call must report it and leave NOTHING behind -
			 * a later registration of the same tp_udata starts from scratch */
			sim_probe("ev.add_failed_by_injected_fault");
			if (0 == rc) { CTLV("ev-ctl-failed", "slot %d: a system call inside tpt_ev_add failed (injected) but the call returned 0", slot); return; }
			r->registered = 0; r->enabled = 0;
			if (r->kind == RK_TIMER && (r->u.tpdata & 0xffffffffu) != 0 && !sim_timer_by_fd((int)(r->u.tpdata & 0xffffffffu)))
				{ CTLV("ev-stale-state", "slot %d: the failed timer registration left a descriptor number (%d) in the registration that is not an open timer", slot, (int)(r->u.tpdata & 0xffffffffu)); return; }
			return;
		}
		if (0 != rc) {
			if (r->kind == RK_TIMER) sim_violation("ev-timer-refused", "well-formed timer (flags %x fflags %x data %llu) was refused with error %d", fl, ff, (unsigned long long)data, rc);
			else CTLV("ev-ctl-failed", "slot %d: well-formed registration (kind %d flags %x fflags %x) was refused with error %d", slot, r->kind, fl, ff, rc);
			return;
		}
		if (r->kind == RK_TIMER && !(r->flags & TP_F_ONESHOT && !r->registered)) timer_check_programmed(r, "tpt_ev_add", t0);
		if (ff & TP_FF_RW_LOWAT) sim_probe("ev.lowat");
		return;
	}
	if (!r->created) return;
	if (0 == strcmp(k, "enable")) {
		int mode = (int)item_get(it, "mode", 0);
		uint16_t fl = mode ? (uint16_t)item_get(it, "fl", 0) : 0;
		uint32_t ff = mode ? (uint32_t)item_get(it, "ff", 0) : 0;
		uint64_t data = mode ? (uint64_t)item_get(it, "data", 0) : 0, t0 = sim_now();
		int had_tfd = (int)(r->u.tpdata & 0xffffffffu) != 0;
		if (NULL == r->u.tpt) return;
		if (r->kind == RK_PROC) { if (r->registered) return; fl = 0; ff = 0; data = 0; }
		if (r->kind != RK_TIMER) ff &= TP_FF_RW_MASK;
		if (r->kind == RK_TIMER && (ff & TP_FF_T_ABSTIME)) data += (sim_realtime_offset() + sim_now()) / unit_ns(ff);
		if (r->kind == RK_TIMER && !had_tfd && r->t_abstime != (0 != (ff & TP_FF_T_ABSTIME)) && 0) return;
		{
			int ff0 = sim_fault_fired_op(sim_get_op());
			if (mode && item_get(it, "readd", 0)) { rc = tpt_ev_add_args(reg_tpt(r), kind_event(r->kind), fl, ff, data, &r->u); sim_probe("ev.readd"); }
			else if (mode) rc = tpt_ev_enable_args(1, kind_event(r->kind), fl, ff, data, &r->u);
			else rc = tpt_ev_enable_args1(1, kind_event(r->kind), &r->u);
			faulted = sim_fault_fired_op(sim_get_op()) > ff0;
		}
		if (faulted && r->kind == RK_TIMER) {
			/* re-arming a timer failed inside (injected): the call reports it, and a timer that could not be programmed
			 * as asked is gone - it must not go on firing with its OLD programming under the NEW flags */
			sim_probe("ev.timer_rearm_failed_by_injected_fault");
			if (0 == rc) { CTLV("ev-ctl-failed", "slot %d: a system call inside the timer re-arm failed (injected) but the call returned 0", slot); return; }
			r->registered = 0; r->enabled = 0; note_ctl_from(r);
			if ((r->u.tpdata & 0xffffffffu) != 0 && !r->fuzzy) { CTLV("ev-stale-state", "slot %d: the failed timer re-arm left timer descriptor %d installed (the old programming goes on under the new flags)", slot, (int)(r->u.tpdata & 0xffffffffu)); return; }
			return;
		}
		sim_log("enable slot=%d mode=%d fl=%x ff=%x data=%llu -> %d", slot, mode, fl, ff, (unsigned long long)data, rc);
		if (r->kind == RK_PROC && rc != 0) return; /* child may be gone already (ESRCH) */
		if (0 != rc) {
			if (r->kind == RK_TIMER) CTLV("ev-timer-refused", "well-formed timer re-arm (flags %x fflags %x data %llu) was refused with error %d", fl, ff, (unsigned long long)data, rc);
			else CTLV("ev-ctl-failed", "slot %d: enabling (kind %d flags %x) failed with error %d", slot, r->kind, fl, rc);
			return;
		}
		r->registered = 1; r->enabled = 1; r->flags = fl; r->fire_since_arm = 0; r->late_allowed = 0;
		r->arm_seq = sim_evseq();
		r->wr_budget = 1 + (int)item_get(it, "wb", 2);
		if (r->kind == RK_TIMER) {
			/* the clock of an existing timer object is fixed at creation: absolute/relative must match it */
			timer_model_arm(r, fl, ff, data);
			{
				int tfd = (int)(r->u.tpdata & 0xffffffffu);
				sim_timer_rec_t *t = sim_timer_by_fd(tfd);
				if (t && r->t_abstime && t->clock != 0) { r->registered = 1; sim_probe("ev.timer_abs_rearm_on_monotonic"); return; }
			}
			if (!r->fuzzy) timer_check_programmed(r, "tpt_ev_enable", t0);
		}
		return;
	}
	if (0 == strcmp(k, "reopen")) {
		/* The application closes the registered descriptor WITHOUT deleting the registration (the kernel drops it from
		 * the epoll set by itself), opens the next connection - same descriptor number as a rule - and enables the
		 * same tp_udata again with the same flags. Whatever the registration remembers from before, the event must be
		 * installed for the new descriptor. Only on the owning thread and only for a plain, live read registration. */
		int p[2];
		uint16_t fl = r->flags;
		if (!is_read_kind(r->kind) || r->relaxed || r->fuzzy || !on_owner(r) || r->fd < 0 || NULL == r->u.tpt || !r->registered || !r->enabled) return;
		close(r->fd); sim_fd_forget(r->fd);
		if (r->peer >= 0) { close(r->peer); sim_fd_forget(r->peer); }
		r->fd = r->peer = -1;
		if (r->kind == RK_PIPE_R) { if (0 != pipe2(p, O_NONBLOCK | O_CLOEXEC)) return; r->fd = p[0]; r->peer = p[1]; }
		else { if (0 != socketpair(AF_UNIX, SOCK_STREAM | SOCK_NONBLOCK | SOCK_CLOEXEC, 0, p)) return; r->fd = p[0]; r->peer = p[1]; }
		sim_fd_note_harness(p[0]); sim_fd_note_harness(p[1]);
		r->u.ident = (uintptr_t)r->fd;
		r->unread = 0; r->peer_closed = 0; r->peer_reset = 0; r->eof_seen = 0; r->err_seen = 0;
		sim_fd_activity();
		r->registered = 1; r->enabled = 1; r->fire_since_arm = 0; r->late_allowed = 0; r->arm_seq = sim_evseq();
		rc = tpt_ev_enable_args(1, TP_EV_READ, fl, 0, 0, &r->u);
		sim_log("reopen slot=%d new fd=%d fl=%x -> %d", slot, r->fd, fl, rc);
		sim_probe("ev.reopen_same_udata");
		if (0 != rc) CTLV("ev-ctl-failed", "slot %d: enabling the registration for a freshly opened descriptor (flags %x) failed with %d", slot, fl, rc);
		return;
	}
	if (0 == strcmp(k, "disable")) {
		int was_reg = r->registered;
		if (NULL == r->u.tpt) return;
		rc = tpt_ev_enable_args1(0, kind_event(r->kind), &r->u);
		sim_log("disable slot=%d -> %d", slot, rc);
		if (r->kind == RK_TIMER || r->kind == RK_PROC) {
			if (!was_reg) { if (0 == rc && (r->u.tpdata & 0xffffffffu) == 0) CTLV("ev-ctl-failed", "slot %d: disabling a spent/deleted %s returned 0", slot, r->kind == RK_TIMER ? "timer" : "process event"); return; }
			if (0 != rc) { CTLV("ev-ctl-failed", "slot %d: disabling a registered %s failed with %d", slot, r->kind == RK_TIMER ? "timer" : "process event", rc); return; }
			if (r->kind == RK_PROC) r->registered = 0;  /* disable == delete for process events */
			r->enabled = 0; note_ctl_from(r);
			return;
		}
		if (0 != rc) { CTLV("ev-ctl-failed", "slot %d: disabling (kind %d) failed with %d", slot, r->kind, rc); return; }
		r->registered = 1; r->enabled = 0; note_ctl_from(r);
		return;
	}
	if (0 == strcmp(k, "del")) {
		int was_reg = r->registered;
		if (NULL == r->u.tpt) return;
		rc = tpt_ev_del_args1(kind_event(r->kind), &r->u);
		sim_log("del slot=%d -> %d", slot, rc);
		if (was_reg && 0 != rc) { CTLV("ev-ctl-failed", "slot %d: deleting a registered event (kind %d) failed with %d", slot, r->kind, rc); return; }
		if (!was_reg && 0 == rc && on_owner(r)) { CTLV("ev-ctl-failed", "slot %d: deleting an event that is gone (spent one-shot / deleted) returned 0", slot); return; }
		if (!was_reg) sim_probe("ev.del_of_gone");
		r->registered = 0; r->enabled = 0; note_ctl_from(r);
		return;
	}
}

static void c06_other(const op_t *op, reg *r, int slot) {
	const item_t *it = &op->it;
	const char *k = it->kind;
	int rc;
	(void)slot;
	if (!r->created && 0 != strcmp(k, "bad")) return;
	if (0 == strcmp(k, "fire")) {
		int n = (int)item_get(it, "n", 1), how = (int)item_get(it, "how", 0);
		if (is_read_kind(r->kind)) {
			if (r->peer < 0) return;
			if (how == 3 && r->kind == RK_SOCK_R) { /* peer shuts down its sending side only: end of stream, connection stays */
				shutdown(r->peer, SHUT_WR); r->peer_closed = 1; sim_probe("ev.peer_half_close");
			} else if (how == 1 || how == 3) { /* peer closes: EOF */
				close(r->peer); sim_fd_forget(r->peer); r->peer = -1; r->peer_closed = 1; sim_probe("ev.peer_close");
			} else if (how == 2 && r->kind == RK_SOCK_R) { /* reset: close with unread data in the peer's queue */
				char c = 'z';
				if (1 == write(r->fd, &c, 1)) { /* our side sent something the peer never reads */ }
				close(r->peer); sim_fd_forget(r->peer); r->peer = -1; r->peer_closed = 1; r->peer_reset = 1; sim_probe("ev.peer_reset");
			} else {
				char buf[64];
				if (n < 1) n = 1; if (n > 64) n = 64;
				memset(buf, 'd', sizeof(buf));
				if (!r->peer_closed && n == (int)write(r->peer, buf, (size_t)n)) r->unread += n;
			}
			sim_fd_activity();
		} else if (is_write_kind(r->kind)) {
			if (r->peer < 0) return;
			if (how == 1 || how == 2) {
				close(r->peer); sim_fd_forget(r->peer); r->peer = -1; r->peer_closed = 1; r->wr_full = 0; r->close_seq = sim_evseq(); sim_probe("ev.peer_close");
			} else if (r->wr_full) {
				char buf[4096];
				while (read(r->peer, buf, sizeof(buf)) > 0) { }
				r->wr_full = 0;
				sim_probe("ev.write_unblocked");
			}
			sim_fd_activity();
		} else sim_sleep_ns((uint64_t)item_get(it, "ns", 1000000), "fire.time");
		return;
	}
	if (0 == strcmp(k, "bad")) {
		/* malformed registrations: must be refused and must not install anything */
		tp_udata_t bu;
		int what = (int)item_get(it, "what", 0), before = g_ctl_calls, tm_before = sim_timer_count();
		uint16_t ev = TP_EV_READ, fl = 0; uint32_t ff = 0;
		tpt_p tpt = PW->thr[0];
		int p[2] = { -1, -1 };
		memset(&bu, 0, sizeof(bu));
		bu.cb_func = ev_cb;
		if (0 != pipe2(p, O_NONBLOCK | O_CLOEXEC)) return;
		sim_fd_note_harness(p[0]); sim_fd_note_harness(p[1]);
		bu.ident = (uintptr_t)p[0];
		switch (what % 10) {
		case 0: fl = 0x10; break;                              /* unknown flag bit */
		case 1: fl = TP_F_ONESHOT | TP_F_DISPATCH; break;
		case 2: bu.cb_func = NULL; break;
		case 3: bu.ident = (uintptr_t)-1; break;
		case 4: tpt = NULL; break;
		case 5: ev = 4 + (uint16_t)(what / 10 % 3); break;     /* bad kind */
		case 6: ff = 0x100; break;                             /* foreign fflags for read */
		case 7: ev = TP_EV_TIMER; ff = 0x8; bu.ident = 77; break;
		case 8: bu.ident = (uintptr_t)5000; break;             /* beyond the descriptor table */
		case 9: ev = TP_EV_PROC; ff = 0x2; bu.ident = 4999; break;
		}
		if ((what / 10) % 3 == 2) {
			/* unknown filter-flag bits in the upper half only */
			fl = 0; bu.cb_func = ev_cb; tpt = PW->thr[0]; bu.ident = (uintptr_t)p[0];
			switch (what % 3) {
			case 0: ev = TP_EV_READ; ff = 0x10000; break;
			case 1: ev = TP_EV_TIMER; ff = TP_FF_T_MSEC | 0x80000000u; bu.ident = 78; break;
			default: ev = TP_EV_WRITE; ff = 0x00400000; bu.ident = (uintptr_t)p[1]; break;
			}
		}
		rc = tpt_ev_add_args(tpt, ev, fl, ff, 5, &bu);
		sim_log("bad what=%d -> %d", what, rc);
		if (0 == rc) sim_violation("ev-malformed-accepted", "malformed registration (case %d: event %u flags %x fflags %x) was accepted", what % 10, ev, fl, ff);
		else if (g_ctl_calls != before || sim_timer_count() != tm_before) sim_violation("ev-malformed-installed", "malformed registration (case %d) was refused with %d but reached epoll_ctl/timerfd", what % 10, rc);
		close(p[0]); close(p[1]); sim_fd_forget(p[0]); sim_fd_forget(p[1]);
		sim_probe("ev.malformed_refused");
		return;
	}
}

static int pred_timers_gone(void *arg) {
	(void)arg;
	for (int q = 0; q < MAX_REG; q++) if (R[q].created && R[q].kind == RK_TIMER && R[q].u.tpdata != 0) return 0;
	return 1;
}
static void final_del_cb(tpt_p tpt, void *udata) {
	reg *r = udata;
	(void)tpt;
	if (r->u.tpdata != 0) tpt_ev_del_args1(TP_EV_TIMER, &r->u);
	r->registered = 0; r->enabled = 0;
	r->late_allowed = (r->relaxed && PW->n > 1) ? 2 * PW->n : 0;   /* another worker may already hold an expiry of a virtual-thread timer */
}

static void *c06_actor(void *arg) {
	int a = (int)(intptr_t)arg;
	const plan_t *p = W.plan;
	for (int i = 0; i < p->nops && !sim_violated(); i++) {
		const op_t *op = &p->ops[i];
		if ((int)item_get(&op->it, "actor", 0) != a) continue;
		sim_set_op(i);
		if (item_get(&op->it, "own", 0) && 0 != strcmp(op->it.kind, "fire") && 0 != strcmp(op->it.kind, "wait")) {
			/* issue the control call on the owning thread (inside a message callback) */
			int slot = (int)item_get(&op->it, "r", 0) % MAX_REG, thr;
			if (0 == strcmp(op->it.kind, "add")) thr = (int)item_get(&op->it, "thr", 0) % (PW->n + 1);
			else thr = R[slot].thr;
			if (thr >= PW->n) thr = 0;
			world_send_carrier(i, 0, thr);
			/* wait until the owner executed it so that the history order of one actor is kept */
			sim_wait_idle(50000000ull);
		} else c06_exec(op, i);
		sim_yield("actor.next");
	}
	return NULL;
}

/* ------------------------------------------------------------------ generator */
static const uint64_t g_tdata[] = { 1, 2, 3, 7, 30, 999, 1000, 1001, 999999, 1000000, 1000001, 1500000, 2000000, 4294967295ull, 4294967296ull, 4294967297ull, 1234567, 86400 };

static void gen_timer_args(item_t *it, rng_t *r) {
	uint32_t unit = (uint32_t)rng_below(r, 4);
	uint64_t d = g_tdata[rng_below(r, sizeof(g_tdata) / sizeof(g_tdata[0]))];
	static const uint16_t fls[] = { 0, 0, TP_F_ONESHOT, TP_F_DISPATCH };
	if (rng_chance(r, 200)) d = 1 + rng_below(r, 5000000);
	/* keep periodic timers slow enough for the step budget: at least ~200 us */
	item_set(it, "fl", fls[rng_below(r, 4)]);
	if (unit == TP_FF_T_NSEC && d < 200000 && !item_get(it, "fl", 0)) d += 200000;
	if (unit == TP_FF_T_USEC && d < 200 && !item_get(it, "fl", 0)) d += 200;
	item_set(it, "ff", unit | (rng_chance(r, 150) ? TP_FF_T_ABSTIME : 0));
	item_set(it, "data", (long long)d);
}

static void c06_gen(plan_t *p, rng_t *r, int tier) {
	int n = 1 + (int)rng_below(r, 2), actors = 1 + (int)rng_below(r, 2);
	int nreg = 1 + (int)rng_below(r, 3);
	int nops = (tier == TIER_QUICK) ? (int)rng_range(r, 3, 14) : (int)rng_range(r, 4, 30);
	int kinds[MAX_REG];
	item_set(&p->cfg, "threads", n);
	item_set(&p->cfg, "actors", actors);
	gen_sched(p, r, tier, 1);
	item_set(&p->sched, "rtoff", 1700000000LL + (long long)rng_below(r, 1000));
	for (int s = 0; s < nreg; s++) {
		op_t *op = plan_add_op(p, "add");
		static const int kw[] = { RK_PIPE_R, RK_PIPE_R, RK_SOCK_R, RK_SOCK_R, RK_PIPE_W, RK_SOCK_W, RK_TIMER, RK_TIMER, RK_TIMER, RK_PROC };
		static const uint16_t fls[] = { 0, 0, TP_F_ONESHOT, TP_F_DISPATCH };
		int kind = kw[rng_below(r, 10)];
		kinds[s] = kind;
		item_set(&op->it, "actor", (long long)rng_below(r, (uint64_t)actors));
		item_set(&op->it, "r", s);
		item_set(&op->it, "kind", kind);
		item_set(&op->it, "thr", rng_chance(r, 120) ? n : (long long)rng_below(r, (uint64_t)n));
		item_set(&op->it, "own", rng_chance(r, 500));
		if (kind == RK_TIMER) { gen_timer_args(&op->it, r); item_set(&op->it, "pvtt", rng_chance(r, 500)); }
		else {
			item_set(&op->it, "fl", fls[rng_below(r, 4)]);
			item_set(&op->it, "ff", rng_chance(r, 150) ? TP_FF_RW_LOWAT : 0);
			item_set(&op->it, "data", rng_chance(r, 300) ? (long long)rng_below(r, 4) : 0);
		}
		if (is_write_kind(kind)) { item_set(&op->it, "full", rng_chance(r, 500)); item_set(&op->it, "wb", (long long)rng_below(r, 4)); }
		if (kind != RK_PROC && rng_chance(r, 70)) {
			/* a system call inside the registration fails */
			static const char *tsites[] = { "epoll_ctl", "epoll_ctl", "timerfd_create", "timerfd_settime" };
			item_t *f = op_add_fault(op, kind == RK_TIMER ? tsites[rng_below(r, 4)] : "epoll_ctl");
			if (f) { item_set(f, "nth", 1); item_set(f, "err", rng_chance(r, 500) ? ENOMEM : ENOSPC); }
		}
		if (kind == RK_PROC) { item_set(&op->it, "exitns", (long long)rng_range(r, 1000, 30000000)); item_set(&op->it, "status", (long long)rng_below(r, 256) << 8); }
	}
	for (int i = 0; i < nops; i++) {
		unsigned k = (unsigned)rng_below(r, 100);
		int s = (int)rng_below(r, (uint64_t)nreg);
		op_t *op;
		if (k < 34) {
			op = plan_add_op(p, "fire");
			item_set(&op->it, "r", s);
			item_set(&op->it, "n", (long long)rng_range(r, 1, 12));
			item_set(&op->it, "how", rng_chance(r, 220) ? 1 + (long long)rng_below(r, 3) : 0);
			item_set(&op->it, "ns", (long long)rng_range(r, 1000, 40000000));
		} else if (k < 52) {
			op = plan_add_op(p, "enable");
			item_set(&op->it, "r", s);
			item_set(&op->it, "mode", rng_chance(r, 700));
			item_set(&op->it, "readd", rng_chance(r, 250));
			item_set(&op->it, "own", rng_chance(r, 850));
			if (kinds[s] == RK_TIMER && rng_chance(r, 80)) { item_t *f = op_add_fault(op, "timerfd_settime"); if (f) { item_set(f, "nth", 1); item_set(f, "err", EINVAL); } }
			if (kinds[s] == RK_TIMER) gen_timer_args(&op->it, r);
			else {
				static const uint16_t fls[] = { 0, 0, TP_F_ONESHOT, TP_F_DISPATCH };
				item_set(&op->it, "fl", fls[rng_below(r, 4)]);
				item_set(&op->it, "ff", 0);
				item_set(&op->it, "wb", (long long)rng_below(r, 4));
			}
		} else if (k < 66) {
			op = plan_add_op(p, "disable");
			item_set(&op->it, "r", s);
			item_set(&op->it, "own", rng_chance(r, 850));
		} else if (k < 76) {
			op = plan_add_op(p, "del");
			item_set(&op->it, "r", s);
			item_set(&op->it, "own", rng_chance(r, 850));
		} else if (k < 80) {
			op = plan_add_op(p, "reopen");
			item_set(&op->it, "r", s);
			item_set(&op->it, "own", 1);
		} else if (k < 88) {
			op = plan_add_op(p, "wait");
			item_set(&op->it, "ns", (long long)rng_range(r, 1000, 60000000));
		} else {
			op = plan_add_op(p, "bad");
			item_set(&op->it, "what", (long long)rng_below(r, 30));
			item_set(&op->it, "own", rng_chance(r, 300));
			item_set(&op->it, "r", 0);
		}
		item_set(&op->it, "actor", (long long)rng_below(r, (uint64_t)actors));
	}
}

/* ------------------------------------------------------------------ run */
static void c06_pre(const plan_t *p) {
	world_reset(p);
	W.msg_oracle = 0;
	sim_knobs.pipe_size = 65536;
	world_op_exec = c06_exec;
	memset(R, 0, sizeof(R));
	g_ctl_calls = 0;
	g_outside_ctl = 0;
	PW = &W.pool[0];
}

static void *c06_root(void *arg) {
	const plan_t *p = arg;
	int n = (int)item_get(&p->cfg, "threads", 1), actors = (int)item_get(&p->cfg, "actors", 1), ids[MAX_ACTORS];
	if (n < 1) n = 1; if (n > 4) n = 4;
	if (actors < 1) actors = 1; if (actors > MAX_ACTORS) actors = MAX_ACTORS;
	sim_set_op(-2);
	if (0 != world_create_pool(0, n, 0, 1)) { sim_violation("setup-failed", "tp_create failed in a fault-free setup"); return NULL; }
	world_start_threads(0, 0);
	world_wait_threads_running(0);
	sim_on_epoll_ctl_hook = on_epoll_ctl;
	for (int a = 0; a < actors; a++) { char nm[16]; snprintf(nm, sizeof(nm), "actor%d", a); ids[a] = sim_spawn(c06_actor, (void *)(intptr_t)a, nm); }
	for (int a = 0; a < actors; a++) sim_join_fiber(ids[a]);
	if (sim_violated()) return NULL;
	/* quiescence: let everything that must fire, fire (periodic timers bound the horizon) */
	sim_fair_finish();
	sim_wait_idle(100000000ull);
	for (int s = 0; s < MAX_REG && !sim_violated(); s++) {
		reg *r = &R[s];
		if (!r->created) continue;
		sim_mark_interesting();
		if (r->registered && r->enabled && !r->fuzzy) {
			if (is_read_kind(r->kind)) {
				if (r->unread > 0) { sim_violation("ev-missed", "slot %d (kind %d flags %x): %ld byte(s) unread at quiescence although the read event is registered and enabled", s, r->kind, r->flags, r->unread); break; }
				if (r->peer_closed && !r->eof_seen && !r->err_seen) { sim_violation("ev-missed-eof", "slot %d: the peer closed but no callback carried TP_F_EOF/TP_F_ERROR", s); break; }
			} else if (is_write_kind(r->kind)) {
				if (!r->wr_full && r->fire_since_arm == 0) { sim_violation("ev-missed", "slot %d: write event registered, enabled and writable but never fired", s); break; }
			} else if (r->kind == RK_PROC) {
				if (sim_now() > r->exit_at + 1000000 && r->fire_count == 0) { sim_violation("ev-missed", "slot %d: the child exited but the process event never fired", s); break; }
			}
		}
	}
	/* timers: delete what is still registered, then check conservation of expirations over every timer object of the run */
	{
		int ntm = 0;
		uint64_t gen = 0, disc = 0, deliv = 0, sum = 0;
		int open_left = 0;
		for (int s = 0; s < MAX_REG && !sim_violated(); s++) {
			reg *r = &R[s];
			if (!r->created || r->kind != RK_TIMER) continue;
			ntm++;
			if (r->u.tpdata != 0) {
				/* delete on the owning thread so that no expiry can race with the deletion */
				if (0 != tpt_msg_send(reg_tpt(r), NULL, 0, final_del_cb, r)) { tpt_ev_del_args1(TP_EV_TIMER, &r->u); r->fuzzy = 1; }
			}
		}
		if (ntm > 0 && !sim_violated()) {
			if (!pred_timers_gone(NULL)) sim_block(pred_timers_gone, NULL, sim_now() + 5000000000ull, "c06.final_del_wait");
			sim_wait_idle(1000000ull);
			if (!pred_timers_gone(NULL)) { sim_violation("no-progress", "the owning thread did not process the final timer deletions within 5 simulated seconds"); return NULL; }
			for (int o = 0; o < sim_timer_count(); o++) {
				sim_timer_rec_t *t = sim_timer_by_ord(o);
				if (!t) continue;
				gen += t->generated; disc += t->discarded; deliv += t->delivered;
				if (!t->closed) open_left++;
			}
			int any_fuzzy = 0;
			for (int q = 0; q < MAX_REG; q++) if (R[q].created && R[q].kind == RK_TIMER) { sum += R[q].sum_data; if (R[q].fuzzy) any_fuzzy = 1; }
			if (any_fuzzy) sum = deliv; /* counts handed over while a control call raced are not defined */
			if (gen != deliv + disc) sim_violation("ev-timer-conservation", "timer expirations generated %llu != read by the library %llu + discarded by re-arm/disable/delete %llu", (unsigned long long)gen, (unsigned long long)deliv, (unsigned long long)disc);
			else if (sum != deliv) sim_violation("ev-timer-conservation", "timer expirations handed to callbacks %llu != read by the library %llu", (unsigned long long)sum, (unsigned long long)deliv);
			else if (open_left) sim_violation("ev-timer-leak", "%d timer descriptor(s) still open after every timer registration was deleted", open_left);
		}
	}
	W.teardown = 1;
	return NULL;
}

const harness_t h_c06 = { "C06", c06_gen, c06_pre, c06_root, NULL };
