/* C10: broadcasts reach each running thread once; completion fires once, after all. */
#define _GNU_SOURCE 1
#include <stdio.h>
#include <stdlib.h>
#include <string.h>
#include <errno.h>
#include "pool.h"

enum { F_ASYNC = 0, F_SYNC, F_SYNC_USLEEP, F_CB, F_CB_ONE };

typedef struct bc_rec {
	int      id, op, pool, form;
	uint32_t flags;            /* flags handed to the library */
	int      caller_fiber;
	tpt_p    caller_tpt;       /* tpt_get_current() of the caller (NULL = external) */
	int      caller_idx;       /* index in the target pool or -1 */
	int      in_call, called;
	uint64_t invoke_seq, return_seq;
	int      rc;
	size_t   sent, failed;
	int      qfail_start[SIM_MAX_FIBERS];
	int      exec_count[MAX_THR];
	int      exec_fiber[MAX_THR];
	uint64_t start_seq[MAX_THR], end_seq[MAX_THR];
	int      qfail_end[MAX_THR];
	int      running_now;      /* callbacks of this broadcast currently executing */
	uint64_t last_end_seq;
	int      last_idx;
	int      done_count;
	uint64_t done_seq;
	size_t   done_sent, done_failed;
	int      done_fiber;
	uint64_t stall_ns;
	int      order[MAX_THR + 1], norder;
} bc_rec;

static tpt_p g_caller_known;
static int g_caller_known_fiber;
static bc_rec g_bc[MAX_BC];
static int g_nbc;
static int g_pool_sync_busy;

static int fiber_of_thread(pool_w *pw, int idx) {
	/* the worker fiber that registered thread idx as its current thread */
	for (int f = 0; f < SIM_MAX_FIBERS; f++) if (sim_fiber_has_tls_value(f, (void *)pw->thr[idx])) return f;
	return -1;
}

static void bc_cb(tpt_p tpt, void *udata) {
	bc_rec *b = udata;
	int me = sim_self(), idx, direct, own;
	pool_w *pw;
	if ((uintptr_t)udata < (uintptr_t)&g_bc[0] || (uintptr_t)udata >= (uintptr_t)&g_bc[g_nbc] ||
	    0 != (((uintptr_t)udata - (uintptr_t)&g_bc[0]) % sizeof(bc_rec))) {
		sim_violation("bc-bad-arg", "broadcast callback invoked with an argument %p no broadcast passed", udata);
		return;
	}
	pw = &W.pool[b->pool];
	idx = world_thr_index(pw, tpt);
	if (idx < 0 || idx >= pw->n) {
		/* the 1-thread special case hands the caller's own thread object to the callback */
		int fi = -2; pool_w *fp = world_pool_of_tpt(tpt, &fi);
		sim_violation("bc-wrong-thread", "broadcast %d (pool %d) callback invoked with a thread object that is not a worker of the target pool (pool %d index %d)",
		    b->id, b->pool, fp ? (int)(fp - W.pool) : -1, fi);
		return;
	}
	if (!b->called) { sim_violation("bc-never-sent", "callback of broadcast %d ran before it was issued", b->id); return; }
	b->exec_count[idx]++;
	sim_hash_u64(0xbc000000ull + ((uint64_t)b->id << 8) + (uint64_t)idx);
	if (b->exec_count[idx] > 1) {
		sim_violation("bc-duplicate", "broadcast %d: callback ran %d times for thread %d", b->id, b->exec_count[idx], idx);
		return;
	}
	if (b->done_count > 0) {
		sim_violation("bc-done-early", "broadcast %d: callback for thread %d started after the completion callback had run", b->id, idx);
		return;
	}
	own = (tpt_get_current() == tpt);
	direct = !own;
	b->exec_fiber[idx] = me;
	if (direct) {
		int ok = 0;
		if ((b->flags & TP_MSG_F_SELF_DIRECT) && b->caller_tpt == tpt && me == b->caller_fiber) ok = 1;
		if ((b->flags & TP_MSG_F_FORCE) && pw->never_started[idx]) { ok = 1; sim_probe("bc.force_direct"); }
		if ((b->flags & TP_MSG_F_FAIL_DIRECT) && me < SIM_MAX_FIBERS && sim_qwrite_fails() > b->qfail_start[me]) { ok = 1; sim_probe("bc.fail_direct"); }
		if (!ok) {
			sim_violation("bc-wrong-thread", "broadcast %d: callback for thread %d executed on fiber %d which is not that thread (flags %x, no direct-call condition holds)", b->id, idx, me, b->flags);
			return;
		}
	} else if (me == b->caller_fiber && b->in_call && (b->flags & TP_MSG_F_SELF_DIRECT)) sim_probe("bc.self_direct");
	if (b->form == F_CB_ONE) {
		if (b->running_now > 0) {
			sim_violation("bc-overlap", "one-by-one broadcast %d: callback for thread %d started while the callback for thread %d was still running", b->id, idx, b->last_idx);
			return;
		}
		if (b->norder < MAX_THR + 1) b->order[b->norder++] = idx;
	}
	b->running_now++;
	b->last_idx = idx;
	b->start_seq[idx] = sim_evseq();
	sim_log("bc %d cb thread %d on fiber %d direct=%d", b->id, idx, me, direct);
	if (b->stall_ns) sim_sleep_ns(b->stall_ns, "bc.cb.work"); else sim_yield("bc.cb");
	b->end_seq[idx] = sim_evseq();
	b->last_end_seq = b->end_seq[idx];
	b->qfail_end[idx] = sim_qwrite_fails();
	b->running_now--;
}

static void bc_done_cb(tpt_p tpt, size_t send_msg_cnt, size_t error_cnt, void *udata) {
	bc_rec *b = udata;
	tpt_p cur = tpt_get_current();
	if ((uintptr_t)udata < (uintptr_t)&g_bc[0] || (uintptr_t)udata >= (uintptr_t)&g_bc[g_nbc]) {
		sim_violation("bc-bad-arg", "completion callback invoked with an argument %p no broadcast passed", udata);
		return;
	}
	b->done_count++;
	sim_hash_u64(0xd0e0000ull + (uint64_t)b->id);
	if (b->done_count > 1) { sim_violation("bc-done-twice", "broadcast %d: completion callback ran %d times", b->id, b->done_count); return; }
	b->done_seq = sim_evseq();
	b->done_sent = send_msg_cnt; b->done_failed = error_cnt;
	b->done_fiber = sim_self();
	sim_log("bc %d done sent=%zu failed=%zu on fiber %d", b->id, send_msg_cnt, error_cnt, sim_self());
	if (b->running_now > 0) { sim_violation("bc-done-early", "broadcast %d: completion callback ran while a callback was still executing (thread %d)", b->id, b->last_idx); return; }
	if (tpt != b->caller_tpt) { sim_violation("bc-done-wrong-thread", "broadcast %d: completion callback received a thread object that is not the originator", b->id); return; }
	if (cur != b->caller_tpt) {
		/* documented fallback: the completion message could not be queued and ran FAIL_DIRECT on the last worker */
		int ci = -1; pool_w *cp = cur ? world_pool_of_tpt(cur, &ci) : NULL;
		int ok = 0;
		if (cp == &W.pool[b->pool] && ci >= 0 && ci < cp->n && sim_qwrite_fails() > b->qfail_end[ci] && b->exec_count[ci] > 0) ok = 1;
		if (!ok && sim_self() < SIM_MAX_FIBERS && sim_qwrite_fails() > b->qfail_start[sim_self()]) ok = 1;
		if (ok) sim_probe("bc.done_fail_direct");
		else { sim_violation("bc-done-wrong-thread", "broadcast %d: completion callback ran on fiber %d, not on the originating thread", b->id, sim_self()); return; }
	}
}

/* expected executions / counts, evaluated when the broadcast is complete */
static void bc_check(bc_rec *b, int final) {
	pool_w *pw = &W.pool[b->pool];
	size_t targeted = 0, execs = 0;
	size_t sent, failed;
	int have_counts = 0;
	if (!b->called) return;
	for (int i = 0; i < pw->n; i++) {
		int skipped = (b->flags & TP_BMSG_F_SELF_SKIP) && b->caller_idx == i;
		if (skipped) {
			if (b->exec_count[i]) { sim_violation("bc-self-not-skipped", "broadcast %d with self-skip ran the callback on the calling thread %d", b->id, i); return; }
			continue;
		}
		targeted++;
		execs += (size_t)b->exec_count[i];
	}
	if (final && b->rc == ESPIPE && execs > 0) {
		/* ESPIPE is "not one message could be sent" */
		sim_violation("bc-bad-errno", "broadcast %d (form %d flags %x): the call returned ESPIPE (nothing sent) although %zu callback(s) ran", b->id, b->form, b->flags, execs);
		return;
	}
	if (b->form == F_CB || b->form == F_CB_ONE) {
		if (b->rc == 0 && final && b->done_count != 1) {
			sim_violation("bc-done-missing", "broadcast %d (form %d flags %x): call returned 0 but the completion callback ran %d times by quiescence", b->id, b->form, b->flags, b->done_count);
			return;
		}
		if (b->done_count == 1) { sent = b->done_sent; failed = b->done_failed; have_counts = 1; }
	} else { sent = b->sent; failed = b->failed; have_counts = 1; }
	if (!final && (b->form == F_ASYNC)) have_counts = 0; /* async: executions still in flight */
	if (have_counts && (final || b->form == F_SYNC || b->form == F_SYNC_USLEEP)) {
		if (sent + failed != targeted) {
			sim_violation("bc-count-mismatch", "broadcast %d (form %d flags %x, caller idx %d, pool of %d): reported sent %zu + failed %zu != targeted %zu", b->id, b->form, b->flags, b->caller_idx, pw->n, sent, failed, targeted);
			return;
		}
		if (final && sent != execs) {
			sim_violation("bc-count-mismatch", "broadcast %d (form %d flags %x): reported sent %zu but %zu callbacks ran (targeted %zu)", b->id, b->form, b->flags, sent, execs, targeted);
			return;
		}
	}
	if (final) {
		for (int i = 0; i < pw->n; i++) {
			/* a running, targeted thread whose send was accepted must have run it exactly once: covered by sent==execs + no duplicates;
			 * not-running threads must not have run it unless FORCE */
			if (pw->never_started[i] && b->exec_count[i] && !(b->flags & TP_MSG_F_FORCE)) {
				sim_violation("bc-ran-on-stopped", "broadcast %d: callback ran for never-started thread %d without FORCE", b->id, i);
				return;
			}
		}
	}
	if (b->form == F_CB_ONE && b->done_count == 1) {
		/* strictly ascending thread order; the caller first (self-direct) or last */
		int prev = -1;
		for (int k = 0; k < b->norder; k++) {
			int idx = b->order[k];
			if (idx == b->caller_idx) {
				int first_ok = (b->flags & TP_MSG_F_SELF_DIRECT) && k == 0;
				int last_ok = !(b->flags & TP_MSG_F_SELF_DIRECT) && k == b->norder - 1;
				if (!first_ok && !last_ok) { sim_violation("bc-order", "one-by-one broadcast %d: the caller's callback ran at position %d of %d", b->id, k, b->norder); return; }
				continue;
			}
			if (idx <= prev) { sim_violation("bc-order", "one-by-one broadcast %d: thread %d ran after thread %d", b->id, idx, prev); return; }
			prev = idx;
		}
	}
	if (b->done_count == 1) {
		for (int i = 0; i < pw->n; i++)
			if (b->exec_count[i] && b->end_seq[i] > b->done_seq) { sim_violation("bc-done-early", "broadcast %d: completion ran before the callback of thread %d finished", b->id, i); return; }
	}
}

typedef struct { bc_rec *b; pool_w *pw; tpt_p src; } call_arg;
static void *sync_call_fiber(void *arg) {
	call_arg *ca = arg;
	bc_rec *b = ca->b;
	size_t s = 777, f = 777;
	b->rc = tpt_msg_bsend_ex(ca->pw->tp, ca->src, b->flags, bc_cb, b, &s, &f);
	b->sent = s; b->failed = f;
	return NULL;
}

static void c10_exec(const op_t *op, int opidx) {
	const item_t *it = &op->it;
	if (0 != strcmp(it->kind, "bcast")) {
		/* noise traffic: plain sends and stalls (the message ledger's own oracle is off in this check) */
		extern const harness_t h_c05;
		int pool = (int)item_get(it, "pool", 0);
		pool_w *pw = &W.pool[pool];
		if (!pw->tp) return;
		int dst = (int)item_get(it, "dst", 0);
		if (dst >= pw->n) dst = pw->n - 1;
		if (0 == strcmp(it->kind, "stall")) {
			msg_rec *m = world_new_msg(opidx, MK_STALL, pool, dst, 0);
			m->stall_ns = (uint64_t)item_get(it, "ns", 1000);
			world_send(m, NULL);
		} else if (0 == strcmp(it->kind, "send")) {
			msg_rec *m = world_new_msg(opidx, MK_PLAIN, pool, dst, (uint32_t)item_get(it, "flags", 0));
			world_send(m, NULL);
		} else if (0 == strcmp(it->kind, "wait")) sim_sleep_ns((uint64_t)item_get(it, "ns", 1000), "actor.wait");
		return;
	}
	int pool = (int)item_get(it, "pool", 0), form = (int)item_get(it, "form", 0);
	pool_w *pw = &W.pool[pool];
	/* who the caller is: the harness' own knowledge where it has it (inside a hook the hook's argument), else the library's */
	tpt_p cur = (g_caller_known && g_caller_known_fiber == sim_self()) ? g_caller_known : tpt_get_current();
	bc_rec *b;
	uint32_t fl = (uint32_t)item_get(it, "flags", 0);
	tpt_p src = item_get(it, "srcx", 0) ? cur : NULL;
	int pool_sync = 0;
	if (!pw->tp || g_nbc >= MAX_BC) return;
	if (form == F_SYNC) fl |= TP_BMSG_F_SYNC;
	if (form == F_SYNC_USLEEP) fl |= TP_BMSG_F_SYNC | TP_BMSG_F_SYNC_USLEEP;
	if (form == F_CB_ONE) fl |= TP_CBMSG_F_ONE_BY_ONE;
	if ((form == F_SYNC || form == F_SYNC_USLEEP) && cur != NULL) {
		/* documented deadlocks: a pool thread waiting synchronously for itself, or two pool threads waiting for each other */
		if (tpt_get_tp(cur) == pw->tp && !(fl & (TP_BMSG_F_SELF_SKIP | TP_MSG_F_SELF_DIRECT))) fl |= TP_BMSG_F_SELF_SKIP;
		if (g_pool_sync_busy) { form = F_ASYNC; fl &= ~(uint32_t)(TP_BMSG_F_SYNC | TP_BMSG_F_SYNC_USLEEP); sim_probe("bc.sync_downgraded"); }
		else { pool_sync = 1; g_pool_sync_busy = 1; }
	}
	b = &g_bc[g_nbc];
	memset(b, 0, sizeof(*b));
	b->id = g_nbc++;
	b->op = opidx; b->pool = pool; b->form = form; b->flags = fl;
	b->caller_fiber = sim_self();
	b->caller_tpt = cur;
	b->caller_idx = (cur && tpt_get_tp(cur) == pw->tp) ? world_thr_index(pw, cur) : -1;
	b->stall_ns = (uint64_t)item_get(it, "stall", 0);
	b->last_idx = -1;
	for (int f = 0; f < SIM_MAX_FIBERS; f++) b->qfail_start[f] = 0;
	{
		extern int sim_fiber_qfails(int fiber);
		for (int f = 0; f < SIM_MAX_FIBERS; f++) b->qfail_start[f] = sim_fiber_qfails(f);
	}
	b->called = 1;
	b->in_call = 1;
	b->invoke_seq = sim_evseq();
	sim_hash_u64(0xbca11000ull + (uint64_t)b->id);
	sim_log("bc %d issue form=%d flags=%x caller_idx=%d", b->id, form, fl, b->caller_idx);
	if (cur && tpt_get_tp(cur) != pw->tp) {
		/* known finding KF-C10-1: the "self" accounting assumes a caller that is a pool thread belongs to the target pool */
		sim_probe("bc.foreign_caller");
		sim_set_context_tag("foreign-caller-broadcast");
	}
	switch (form) {
	case F_ASYNC: {
		size_t s = 777, f = 777;
		b->rc = tpt_msg_bsend_ex(pw->tp, src, fl, bc_cb, b, &s, &f);
		b->sent = s; b->failed = f;
		break;
	}
	case F_SYNC: case F_SYNC_USLEEP:
		if (cur == NULL) {
			/* external caller: the call runs on a thread of its own that exits right afterwards, so the caller's
			 * frame (where the library keeps the shared record) is dead memory once the call returned */
			call_arg ca = { b, pw, src };
			int id = sim_spawn(sync_call_fiber, &ca, "sync-caller");
			sim_join_fiber(id);
			sim_probe("bc.sync_external");
		} else {
			size_t s = 777, f = 777;
			b->rc = tpt_msg_bsend_ex(pw->tp, src, fl, bc_cb, b, &s, &f);
			b->sent = s; b->failed = f;
			sim_probe("bc.sync_from_pool");
		}
		break;
	default:
		b->rc = tpt_msg_cbsend(pw->tp, src, fl, bc_cb, b, bc_done_cb);
		break;
	}
	b->in_call = 0;
	b->return_seq = sim_evseq();
	if (pool_sync) g_pool_sync_busy = 0;
	sim_log("bc %d returned rc=%d sent=%zu failed=%zu", b->id, b->rc, b->sent, b->failed);
	if (sim_violated()) return;
	if (form == F_SYNC || form == F_SYNC_USLEEP) {
		for (int i = 0; i < pw->n; i++) {
			if (b->exec_count[i] && b->end_seq[i] == 0) {
				sim_violation("bc-sync-early-return", "synchronous broadcast %d returned while the callback on thread %d was still running", b->id, i);
				return;
			}
		}
		if (b->running_now != 0) { sim_violation("bc-sync-early-return", "synchronous broadcast %d returned while a callback was still running", b->id); return; }
		{
			size_t finished = 0;
			for (int i = 0; i < pw->n; i++) if (b->exec_count[i] && b->end_seq[i]) finished++;
			if (finished < b->sent) {
				sim_violation("bc-sync-early-return", "synchronous broadcast %d returned reporting %zu sent while only %zu callbacks had finished", b->id, b->sent, finished);
				return;
			}
		}
		bc_check(b, 0);
	}
	if ((form == F_CB || form == F_CB_ONE) && cur == NULL && src == NULL) {
		if (b->rc != EINVAL) sim_violation("bc-bad-errno", "tpt_msg_cbsend from outside the pool without a source thread returned %d, documented is EINVAL", b->rc);
	}
	if ((form == F_ASYNC) && (b->sent == 777 || b->failed == 777)) sim_violation("bc-count-mismatch", "tpt_msg_bsend_ex did not store the counts");
}

/* late check of synchronous broadcasts: callbacks that start after the call returned */
static void bc_check_all(int final) {
	for (int i = 0; i < g_nbc && !sim_violated(); i++) {
		bc_rec *b = &g_bc[i];
		pool_w *pw = &W.pool[b->pool];
		if ((b->form == F_SYNC || b->form == F_SYNC_USLEEP) && b->called && !b->in_call) {
			for (int t = 0; t < pw->n; t++)
				if (b->exec_count[t] && b->start_seq[t] > b->return_seq) {
					sim_violation("bc-sync-early-return", "synchronous broadcast %d returned (event %llu) before the callback on thread %d started (event %llu)", b->id,
					    (unsigned long long)b->return_seq, t, (unsigned long long)b->start_seq[t]);
					return;
				}
		}
		bc_check(b, final);
	}
}

/* ------------------------------------------------------------------ generator */
static void c10_gen(plan_t *p, rng_t *r, int tier) {
	static const int nq[] = { 1, 2, 2, 3, 3, 4, 4, 5, 6 };
	static const int nt[] = { 1, 2, 3, 4, 6, 8, 12, 16 };
	int n = (tier == TIER_QUICK) ? nq[rng_below(r, 9)] : nt[rng_below(r, 8)];
	int actors = 1 + (int)rng_below(r, 3);
	int nops = (tier == TIER_QUICK) ? (int)rng_range(r, 1, 8) : (int)rng_range(r, 1, 16);
	int faulty = rng_chance(r, 500);
	int two = rng_chance(r, 60), n2 = two ? 1 + (int)rng_below(r, 2) : 0;
	item_set(&p->cfg, "threads", n);
	item_set(&p->cfg, "threads2", n2);
	item_set(&p->cfg, "actors", actors);
	item_set(&p->cfg, "skipfirst", rng_chance(r, 200));
	if (rng_chance(r, 120)) item_set(&p->cfg, "hookbc", 1 + (long long)rng_below(r, (uint64_t)n));
	item_set(&p->cfg, "pipe", rng_chance(r, 300) ? 4096 : 65536);
	item_set(&p->cfg, "waitstart", rng_chance(r, 600));
	/* (not together with a broadcast from a start hook: a message accepted for a slot that is STARTING and whose
	 * pthread_create then fails for good has nobody to run it - that combination is the harness' own invention) */
	if (n > 1 && rng_chance(r, 150) && !item_get(&p->cfg, "hookbc", 0)) item_set(&p->cfg, "createfail", 1 + (long long)rng_below(r, (uint64_t)n));
	gen_sched(p, r, tier, 1);
	for (int i = 0; i < nops; i++) {
		unsigned k = (unsigned)rng_below(r, 100);
		op_t *op;
		if (k < 70 || i == 0) {
			static const uint32_t fsets[] = { 0, 0, TP_BMSG_F_SELF_SKIP, TP_MSG_F_SELF_DIRECT, TP_MSG_F_FORCE, TP_MSG_F_FAIL_DIRECT,
			    TP_BMSG_F_SELF_SKIP | TP_MSG_F_FAIL_DIRECT, TP_MSG_F_SELF_DIRECT | TP_MSG_F_FORCE, TP_MSG_F_SELF_DIRECT | TP_MSG_F_FAIL_DIRECT,
			    TP_MSG_F_FORCE | TP_MSG_F_FAIL_DIRECT };
			int form = (int)rng_below(r, 5);
			int via;
			op = plan_add_op(p, "bcast");
			item_set(&op->it, "actor", (long long)rng_below(r, (uint64_t)actors));
			item_set(&op->it, "pool", 0);
			item_set(&op->it, "form", form);
			item_set(&op->it, "flags", fsets[rng_below(r, sizeof(fsets) / sizeof(fsets[0]))]);
			/* caller: external (-1), a thread of the pool, or a thread of the second pool */
			if (form >= F_CB) via = rng_chance(r, 900) ? (int)rng_below(r, (uint64_t)n) : -1;
			else via = rng_chance(r, 450) ? -1 : (int)rng_below(r, (uint64_t)n);
			if (two && rng_chance(r, 250)) { item_set(&op->it, "vpool", 1); via = (int)rng_below(r, (uint64_t)n2); }
			else item_set(&op->it, "vpool", 0);
			item_set(&op->it, "via", via);
			item_set(&op->it, "srcx", rng_chance(r, 300));
			if (rng_chance(r, 400)) item_set(&op->it, "stall", (long long)rng_range(r, 1, 30000000));
			if (faulty && rng_chance(r, 500)) {
				static const int errs[] = { EAGAIN, EAGAIN, EPIPE, EBADF };
				item_t *f = op_add_fault(op, "qwrite");
				item_set(f, "nth", 1 + (long long)rng_below(r, (uint64_t)n + 1));
				item_set(f, "err", errs[rng_below(r, 4)]);
				if (rng_chance(r, 200)) item_set(f, "count", 1 + (long long)rng_below(r, (uint64_t)n + 1));
			}
		} else if (k < 82) {
			op = plan_add_op(p, "stall");
			item_set(&op->it, "actor", (long long)rng_below(r, (uint64_t)actors));
			item_set(&op->it, "pool", 0);
			item_set(&op->it, "dst", (long long)rng_below(r, (uint64_t)n));
			item_set(&op->it, "ns", (long long)rng_range(r, 1000, 40000000));
		} else if (k < 92) {
			op = plan_add_op(p, "send");
			item_set(&op->it, "actor", (long long)rng_below(r, (uint64_t)actors));
			item_set(&op->it, "pool", 0);
			item_set(&op->it, "dst", (long long)rng_below(r, (uint64_t)n));
			item_set(&op->it, "flags", 0);
		} else {
			op = plan_add_op(p, "wait");
			item_set(&op->it, "actor", (long long)rng_below(r, (uint64_t)actors));
			item_set(&op->it, "ns", (long long)rng_range(r, 1, 20000000));
		}
	}
}

static void *c10_actor(void *arg) {
	int a = (int)(intptr_t)arg;
	const plan_t *p = W.plan;
	for (int i = 0; i < p->nops && !sim_violated(); i++) {
		const op_t *op = &p->ops[i];
		int via = (int)item_get(&op->it, "via", -1);
		if ((int)item_get(&op->it, "actor", 0) != a) continue;
		sim_set_op(i);
		if (0 == strcmp(op->it.kind, "bcast") && via >= 0) {
			int vpool = (int)item_get(&op->it, "vpool", 0);
			pool_w *vp = &W.pool[vpool];
			if (!vp->tp) vp = &W.pool[vpool = 0];
			if (via >= vp->n) via = vp->n - 1;
			world_send_carrier(i, vpool, via);
		} else c10_exec(op, i);
		sim_yield("actor.next");
	}
	return NULL;
}

/* a broadcast issued from inside a worker's start hook: the caller IS a pool thread (the hook's argument says which) */
static int g_hookbc_idx1;
static void c10_start_hook(tpt_p tpt, int idx) {
	op_t d;
	if (g_hookbc_idx1 != idx + 1 || g_nbc >= MAX_BC) return;
	g_hookbc_idx1 = 0;
	memset(&d, 0, sizeof(d));
	item_kind(&d.it, "bcast");
	item_set(&d.it, "pool", 0); item_set(&d.it, "form", F_ASYNC);
	item_set(&d.it, "flags", (long long)(W.plan->seed & 1 ? TP_BMSG_F_SELF_SKIP : 0));
	sim_probe("bc.from_start_hook");
	g_caller_known = tpt; g_caller_known_fiber = sim_self();
	c10_exec(&d, -1);
	g_caller_known = NULL;
}

static void c10_pre(const plan_t *p) {
	world_reset(p);
	W.msg_oracle = 0;
	sim_knobs.pipe_size = (int)item_get(&p->cfg, "pipe", 65536);
	world_op_exec = c10_exec;
	g_nbc = 0;
	g_pool_sync_busy = 0;
	g_caller_known = NULL;
	g_hookbc_idx1 = (int)item_get(&p->cfg, "hookbc", 0);
	W.start_hook_fn = g_hookbc_idx1 ? c10_start_hook : NULL;
}

static void *c10_root(void *arg) {
	const plan_t *p = arg;
	int n = (int)item_get(&p->cfg, "threads", 2), n2 = (int)item_get(&p->cfg, "threads2", 0);
	int actors = (int)item_get(&p->cfg, "actors", 1), ids[MAX_ACTORS];
	if (n < 1) n = 1; if (n > MAX_THR) n = MAX_THR;
	if (n2 > MAX_THR) n2 = MAX_THR;
	if (actors < 1) actors = 1; if (actors > MAX_ACTORS) actors = MAX_ACTORS;
	sim_set_op(-2);
	/* the option bits of the three flag families travel in one word: they must not overlap */
	{
		static const uint32_t fam[] = { TP_MSG_F_SELF_DIRECT, TP_MSG_F_FORCE, TP_MSG_F_FAIL_DIRECT, TP_BMSG_F_SELF_SKIP, TP_BMSG_F_SYNC, TP_BMSG_F_SYNC_USLEEP, TP_CBMSG_F_ONE_BY_ONE };
		for (unsigned i = 0; i < sizeof(fam) / sizeof(fam[0]); i++) for (unsigned j = i + 1; j < sizeof(fam) / sizeof(fam[0]); j++)
			if (fam[i] & fam[j]) { sim_violation("bc-flag-overlap", "message/broadcast option bits %x and %x overlap: one option switches another on", fam[i], fam[j]); return NULL; }
	}
	if (0 != world_create_pool(0, n, 0, 1)) { sim_violation("setup-failed", "tp_create failed in a fault-free setup"); return NULL; }
	if (n2 > 0 && 0 != world_create_pool(1, n2, 0, 1)) { sim_violation("setup-failed", "tp_create (second pool) failed"); return NULL; }
	{
		int cf = (int)item_get(&p->cfg, "createfail", 0);
		extern void sim_fault_add(int op, const char *site, int nth, int count, int err);
		if (cf > 0) sim_fault_add(-2, "pthread_create", cf, 1, EPERM);
	}
	world_start_threads(0, (int)item_get(&p->cfg, "skipfirst", 0));
	if (n2 > 0) world_start_threads(1, 0);
	if (item_get(&p->cfg, "waitstart", 1)) { world_wait_threads_running(0); if (n2 > 0) world_wait_threads_running(1); }
	for (int a = 0; a < actors; a++) { char nm[16]; snprintf(nm, sizeof(nm), "actor%d", a); ids[a] = sim_spawn(c10_actor, (void *)(intptr_t)a, nm); }
	for (int a = 0; a < actors; a++) sim_join_fiber(ids[a]);
	sim_fair_finish();
	sim_wait_idle(3600ull * 1000000000ull);
	bc_check_all(1);
	if (g_nbc > 0) sim_mark_interesting();
	W.teardown = 1;
	if (sim_violated() || !item_get(&p->cfg, "lateprobe", 1) || g_nbc >= MAX_BC) return NULL;
	/* after the traffic: every worker has visibly left its loop (its stop hook is running) - a broadcast now can reach
	 * nobody: nothing is sent, everybody is counted as failed, no callback ever runs */
	{
		pool_w *pw = &W.pool[0];
		op_t d;
		bc_rec *b;
		int left = 1;
		W.slow_stop_hook_ns = 300000;
		tp_shutdown(pw->tp);
		for (int round = 0; round < 2000 && left && !sim_violated(); round++) {
			left = 0;
			for (int i = 0; i < pw->n; i++) if (!pw->never_started[i] && pw->stop_cnt[i] == 0) left++;
			if (left) sim_sleep_ns(20000, "c10.late_probe");
		}
		if (left || sim_violated()) return NULL;
		memset(&d, 0, sizeof(d));
		item_kind(&d.it, "bcast");
		item_set(&d.it, "pool", 0); item_set(&d.it, "form", F_ASYNC); item_set(&d.it, "flags", 0);
		sim_probe("bc.to_stopping_pool");
		c10_exec(&d, -1);
		if (sim_violated()) return NULL;
		b = &g_bc[g_nbc - 1];
		if (b->sent != 0 || b->failed != (size_t)pw->n) { sim_violation("bc-sent-to-stopping", "broadcast to a pool whose workers have all left their loops reported sent %zu failed %zu (pool of %d): the accepted messages can never be delivered", b->sent, b->failed, pw->n); return NULL; }
		if (b->rc != ESPIPE) { sim_violation("bc-bad-errno", "broadcast that could not send a single message returned %d, documented is ESPIPE", b->rc); return NULL; }
		sim_wait_idle(50000000ull);
		for (int i = 0; i < pw->n; i++) if (b->exec_count[i]) { sim_violation("bc-ran-on-stopped", "broadcast callback ran for thread %d which had left its loop", i); return NULL; }
	}
	return NULL;
}

const harness_t h_c10 = { "C10", c10_gen, c10_pre, c10_root, NULL };
