/* placeholders until each harness exists */
#include "h.h"
static void g(plan_t *p, rng_t *r, int t) { gen_sched(p, r, t, 0); }
static void *root(void *a) { (void)a; return 0; }
#ifndef HAVE_C16
const harness_t h_c16 = { "C16", g, 0, root, 0 };
#endif
