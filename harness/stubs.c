/* placeholders until each harness exists */
#include "h.h"
static void g(plan_t *p, rng_t *r, int t) { gen_sched(p, r, t, 0); }
static void *root(void *a) { (void)a; return 0; }
