#ifndef LCB_POOL_H
#define LCB_POOL_H

#include <stdint.h>
#include <stddef.h>
#include "h.h"
#include "threadpool/threadpool.h"
#include "threadpool/threadpool_msg_sys.h"

#define MAX_THR   16
#define MAX_POOLS 2
#define MAX_MSG   24000
#define MAX_BC    64
#define MAX_ACTORS 6

typedef struct pool_w {
	tp_p    tp;
	int     n;                    /* threads_max */
	tpt_p   thr[MAX_THR];
	tpt_p   pvt;
	int     created;              /* tp_create returned 0 */
	int     threads_started;      /* tp_threads_create called */
	int     never_started[MAX_THR]; /* statically not running: skipped or pthread_create failed */
	int     start_cnt[MAX_THR + 1], stop_cnt[MAX_THR + 1]; /* hooks; [n] = pvt */
	int     hook_bad;             /* hook called with unknown tpt */
	int     hooks_installed;
	int     destroyed;
	uint64_t destroyed_seq;
	int     shutdown_called;
	int     fds_before, allocs_before;
} pool_w;

typedef struct msg_rec {
	int      id, op, kind;
	int      pool, dst;           /* dst thread index, -1 = pvt */
	uint32_t flags;
	int      sent;                /* send call issued */
	int      send_fiber;
	tpt_p    sender_tpt;          /* tpt_get_current() of the sender, or explicit src */
	uint64_t invoke_seq, return_seq;
	int      in_send;
	int      rc;
	int      qfail_before;
	int      exec_count;
	int      exec_fiber;
	uint64_t exec_seq;
	int      exec_sync;
	int      dst_running;         /* harness' static knowledge at send time */
	int      nested_op;           /* op to perform inside the callback (-1 none) */
	uint64_t stall_ns;
	int      race;                /* sent while the pool is shutting down: may be accepted and never served; everything else still holds */
	int      q_known;             /* the packet's position in its queue's byte stream is known (queue-corruption runs) */
	int      q_idx;
	uint64_t q_off;
} msg_rec;

/* byte-stream ledger of one message queue; kept only to decide which losses stray bytes in a queue excuse */
#define MAX_QBOUNDS 3000
typedef struct queue_w {
	int      rfd, wfd;
	uint64_t wr_off, rd_off;
	int      damaged;             /* stray bytes were put into this queue */
	int      tolerate_all;        /* boundary table overflowed: losses on this queue are not judged */
} queue_w;

enum { MK_PLAIN = 0, MK_CARRIER, MK_STALL };

typedef struct world {
	const plan_t *plan;
	pool_w  pool[MAX_POOLS];
	int     npools;
	msg_rec *msgs;
	int     nmsgs;
	int     teardown;             /* root reached teardown: traffic oracles off */
	void   (*start_hook_fn)(tpt_p tpt, int idx);   /* harness action inside a worker's start hook (C10: a broadcast from there) */
	int      hook_shutdown_idx1;  /* 1 + index of the thread whose START hook calls tp_shutdown() (n = virtual thread), 0 = none */
	int      stop_hook_selfsend;  /* C05: every stopping thread self-sends with SELF_DIRECT in its stop hook (bit 1: explicit src) */
	uint64_t slow_stop_hook_ns;   /* the stop hook keeps its thread in the stopping state for this long */
	int     msg_oracle;           /* C05 ledger violations are reported (only the C05 check) */
	queue_w q[MAX_POOLS][MAX_THR + 1];   /* [n] = virtual thread */
	int     nqb;
	struct { short pool, thr; uint64_t off; } qb[MAX_QBOUNDS];   /* read boundaries inside damaged queues */
} world;
extern world W;

/* world helpers (pool.c) */
void   world_reset(const plan_t *p);
int    world_create_pool(int k, int n, uint32_t flags, int hooks);   /* returns tp_create rc */
void   world_start_threads(int k, int skip_first);
int    world_thr_index(pool_w *pw, tpt_p tpt);                       /* -1 pvt?, -2 unknown ; pvt => pw->n */
pool_w *world_pool_of_tpt(tpt_p tpt, int *idx);
msg_rec *world_new_msg(int op, int kind, int pool, int dst, uint32_t flags);
void   world_track_queues(int k);                                   /* start the byte-stream ledger of pool k's queues */
int    world_queue_junk(int pool, int thr, int k, int how);
int    world_msg_was_read(const msg_rec *m);                          /* its packet was read from the queue by a worker */          /* put k stray bytes into a queue; returns bytes written */
int    world_send(msg_rec *m, tpt_p src_explicit);                   /* performs tpt_msg_send with ledger bookkeeping */
void   world_msg_cb(tpt_p tpt, void *udata);
void   world_check_messages(int final);                              /* C05 oracle at quiescence */
int    world_send_carrier(int opidx, int pool, int thr);             /* deliver op to be executed on a pool thread; returns rc */
void   world_wait_threads_running(int k);

/* op interpreter: property files register how to run an op on the current fiber */
typedef void (*op_fn)(const op_t *op, int opidx);
extern op_fn world_op_exec;

#endif
