/* Shared "pool world" for the thread-pool properties: pools, hooks, message ledger (C05 oracle). */
#define _GNU_SOURCE 1
#include <stdio.h>
#include <stdlib.h>
#include <string.h>
#include <errno.h>
#include "pool.h"

world W;
#define MSGV(...) do { if (W.msg_oracle) sim_violation(__VA_ARGS__); else { sim_probe("msg.oracle_off_deviation"); } } while (0)
op_fn world_op_exec = NULL;
static msg_rec g_msgs[MAX_MSG];

/* ------------------------------------------------------------------ hooks */
pool_w *world_pool_of_tpt(tpt_p tpt, int *idx) {
	for (int k = 0; k < W.npools; k++) {
		pool_w *pw = &W.pool[k];
		if (!pw->tp) continue;
		if (tpt == pw->pvt) { if (idx) *idx = pw->n; return pw; }
		for (int i = 0; i < pw->n; i++) if (pw->thr[i] == tpt) { if (idx) *idx = i; return pw; }
	}
	return NULL;
}
int world_thr_index(pool_w *pw, tpt_p tpt) {
	if (tpt == pw->pvt) return pw->n;
	for (int i = 0; i < pw->n; i++) if (pw->thr[i] == tpt) return i;
	return -2;
}

/* During tp_create the harness does not know the thread objects yet (tp is returned at the end):
 * hooks called for the virtual thread inside tp_create are attributed through tp udata. */
static void hook_common(tpt_p tpt, int start) {
	tp_p tp = tpt_get_tp(tpt);
	pool_w *pw = NULL;
	int idx = -2;
	sim_yield(start ? "hook.start" : "hook.stop");
	if (tp) pw = tp_udata_get(tp);
	if (!pw || pw < &W.pool[0] || pw > &W.pool[MAX_POOLS - 1]) {
		/* stop hook on a zeroed thread object etc. */
		for (int k = 0; k < MAX_POOLS; k++) if (W.pool[k].hooks_installed) { W.pool[k].hook_bad++; }
		sim_log("hook %s with unattributable tpt %p (tp=%p)", start ? "start" : "stop", (void *)tpt, (void *)tp);
		return;
	}
	if (pw->tp) idx = world_thr_index(pw, tpt);
	else {
		/* inside tp_create: only the virtual thread's hook runs here */
		idx = (tpt_get_num(tpt) == (size_t)pw->n) ? pw->n : -2;
	}
	if (idx < 0 || idx > pw->n) { pw->hook_bad++; return; }
	if (start) pw->start_cnt[idx]++; else pw->stop_cnt[idx]++;
	if (start && idx < pw->n && W.start_hook_fn) W.start_hook_fn(tpt, idx);
	if (start && W.hook_shutdown_idx1 == idx + 1) {
		/* the application decides in a start hook that it does not want to run after all (for the virtual thread
		 * that is inside tp_create, for a worker on the worker itself) */
		W.hook_shutdown_idx1 = 0;
		sim_probe(idx == pw->n ? "hook.shutdown_from_virtual_start_hook" : "hook.shutdown_from_worker_start_hook");
		tp_shutdown(tp);
		pw->shutdown_called = 1;
	}
	if (!start && W.stop_hook_selfsend && idx < pw->n && W.nmsgs < MAX_MSG - 4) {
		/* a thread that is stopping sends to ITSELF with the self-direct option (clean-up code does that): the
		 * direct-call option does not depend on the destination still serving its queue */
		msg_rec *m = world_new_msg(-1, MK_PLAIN, (int)(pw - W.pool), idx, TP_MSG_F_SELF_DIRECT);
		int rc;
		m->sent = 1; m->send_fiber = sim_self(); m->sender_tpt = tpt; m->dst_running = 1; m->in_send = 1; m->qfail_before = sim_qwrite_fails();
		rc = tpt_msg_send(tpt, (W.stop_hook_selfsend & 2) ? tpt : NULL, TP_MSG_F_SELF_DIRECT, world_msg_cb, m);
		m->in_send = 0; m->rc = rc;
		sim_probe("c05.self_direct_in_stop_hook");
		if (0 != rc || m->exec_count != 1 || !m->exec_sync)
			sim_violation("msg-self-direct-refused", "thread %d, in its stop hook, sent to itself with TP_MSG_F_SELF_DIRECT: returned %d, callback ran %d time(s) (expected: 0, once, synchronously)", idx, rc, m->exec_count);
	}
	if (!start && W.slow_stop_hook_ns && idx < pw->n) sim_sleep_ns(W.slow_stop_hook_ns, "hook.stop.work");
	if (pw->destroyed) sim_violation("callback-after-destroy", "%s hook for thread %d ran after tp_destroy returned", start ? "start" : "stop", idx);
	sim_log("hook %s pool%d thr %d", start ? "start" : "stop", (int)(pw - W.pool), idx);
}
static void hook_start(tpt_p tpt) { hook_common(tpt, 1); }
static void hook_stop(tpt_p tpt) { hook_common(tpt, 0); }

/* ------------------------------------------------------------------ world */
void world_reset(const plan_t *p) {
	memset(&W, 0, sizeof(W));
	W.plan = p;
	W.msgs = g_msgs;
	W.nmsgs = 0;
	W.npools = MAX_POOLS;
	W.msg_oracle = 1;
}

int world_create_pool(int k, int n, uint32_t flags, int hooks) {
	pool_w *pw = &W.pool[k];
	tp_settings_t s;
	tp_p tp = NULL;
	int rc;
	memset(pw, 0, sizeof(*pw));
	pw->n = n;
	pw->hooks_installed = hooks;
	pw->fds_before = sim_lib_fds_open();
	pw->allocs_before = (int)sim_lib_allocs_live();
	tp_settings_def(&s);
	s.flags = flags;
	s.threads_max = (size_t)n;
	snprintf(s.name, sizeof(s.name), "P%d", k);
	if (hooks) { s.tpt_on_start = hook_start; s.tpt_on_stop = hook_stop; }
	s.udata = pw;
	rc = tp_create(&s, &tp);
	if (0 != rc) {
		if (tp != NULL) sim_violation("create-fail-residue", "tp_create returned %d but stored a pool pointer", rc);
		return rc;
	}
	if (!tp) { sim_violation("create-bad", "tp_create returned 0 without a pool"); return EINVAL; }
	pw->tp = tp;
	pw->created = 1;
	pw->pvt = tp_thread_get_pvt(tp);
	for (int i = 0; i < n; i++) { pw->thr[i] = tp_thread_get(tp, (size_t)i); pw->never_started[i] = 1; }
	return 0;
}

void world_start_threads(int k, int skip_first) {
	pool_w *pw = &W.pool[k];
	int before = sim_pool_fibers_created();
	(void)before;
	for (int i = 0; i < pw->n; i++) pw->never_started[i] = 1;
	tp_threads_create(pw->tp, skip_first);
	pw->threads_started = 1;
	/* which threads exist: the library marks failed creations STOP right away */
	for (int i = 0; i < pw->n; i++) pw->never_started[i] = !tpt_is_running(pw->thr[i]);
}

static int pred_all_running(void *arg) {
	pool_w *pw = arg;
	for (int i = 0; i < pw->n; i++) {
		if (pw->never_started[i]) continue;
		/* RUNNING == 3 is private; the hook count tells us the thread reached its loop */
		if (pw->hooks_installed && pw->start_cnt[i] == 0) return 0;
	}
	return 1;
}
void world_wait_threads_running(int k) {
	pool_w *pw = &W.pool[k];
	if (!pred_all_running(pw)) sim_block(pred_all_running, pw, 0, "wait_threads_running");
}

/* ------------------------------------------------------------------ message ledger */
msg_rec *world_new_msg(int op, int kind, int pool, int dst, uint32_t flags) {
	if (W.nmsgs >= MAX_MSG) { sim_violation("sim-limit", "message ledger full"); return &g_msgs[MAX_MSG - 1]; }
	msg_rec *m = &g_msgs[W.nmsgs];
	memset(m, 0, sizeof(*m));
	m->id = W.nmsgs++;
	m->op = op; m->kind = kind; m->pool = pool; m->dst = dst; m->flags = flags;
	m->nested_op = -1;
	m->send_fiber = -1; m->exec_fiber = -1;
	return m;
}

void world_msg_cb(tpt_p tpt, void *udata) {
	msg_rec *m = udata;
	int me = sim_self();
	tpt_p cur = tpt_get_current();
	pool_w *pw;
	tpt_p dst;
	if ((uintptr_t)udata < (uintptr_t)&g_msgs[0] || (uintptr_t)udata >= (uintptr_t)&g_msgs[W.nmsgs] ||
	    0 != (((uintptr_t)udata - (uintptr_t)&g_msgs[0]) % sizeof(msg_rec))) {
		MSGV("msg-bad-arg", "message callback invoked with an argument %p that no send passed", udata);
		return;
	}
	pw = &W.pool[m->pool];
	dst = (m->dst < 0) ? pw->pvt : pw->thr[m->dst];
	if (pw->destroyed) { sim_violation("callback-after-destroy", "message %d callback ran after tp_destroy returned", m->id); return; }
	if (!m->sent) { MSGV("msg-never-sent", "message %d executed but was never sent", m->id); return; }
	m->exec_count++;
	sim_hash_u64(0x3e5a0000ull + (uint64_t)m->id);
	if (m->exec_count > 1) {
		MSGV("msg-duplicate", "message %d (op %d, dst %d) executed %d times (first on fiber %d, now on fiber %d)", m->id, m->op, m->dst, m->exec_count, m->exec_fiber, me);
		return;
	}
	m->exec_fiber = me;
	m->exec_seq = sim_evseq();
	m->exec_sync = (m->in_send && m->send_fiber == me);
	sim_log("msg %d exec on fiber %d tpt-idx %d sync=%d", m->id, me, world_thr_index(pw, tpt), m->exec_sync);
	if (tpt != dst) {
		MSGV("msg-wrong-thread", "message %d for dst %d delivered with thread argument index %d", m->id, m->dst, world_thr_index(pw, tpt));
		return;
	}
	if (m->exec_sync) {
		int ok = 0;
		if ((m->flags & TP_MSG_F_SELF_DIRECT) && m->sender_tpt == dst) { ok = 1; sim_probe("msg.self_direct"); }
		if ((m->flags & TP_MSG_F_FORCE) && (!m->dst_running || m->race)) { ok = 1; sim_probe("msg.force_direct"); }
		if ((m->flags & TP_MSG_F_FAIL_DIRECT) && sim_qwrite_fails() > m->qfail_before) { ok = 1; sim_probe("msg.fail_direct"); }
		if (!ok) {
			MSGV("msg-direct-unjustified", "message %d (flags %x, dst %d running=%d) was executed synchronously in the sender although no direct-call condition held", m->id, m->flags, m->dst, m->dst_running);
			return;
		}
	} else {
		/* queued delivery: must run on the destination thread */
		if (m->dst >= 0 && tpt == dst && cur != tpt) {
			/* the worker's loop handed us its own thread object, yet the library's "current thread" is something else:
			 * every self/deadlock test of this thread is wrong from here on (checked in every pool check) */
			sim_violation("thread-identity-lost", "callback served by worker %d of pool %d, but tpt_get_current() on that thread answers %s", m->dst, m->pool, cur ? "another thread object" : "NULL (not a pool thread)");
			return;
		}
		if (m->dst >= 0) {
			if (cur != dst) {
				int ci = -2; pool_w *cp = cur ? world_pool_of_tpt(cur, &ci) : NULL;
				MSGV("msg-wrong-thread", "queued message %d for thread %d of pool %d executed on fiber %d (pool %d thread %d)", m->id, m->dst, m->pool, me, cp ? (int)(cp - W.pool) : -1, ci);
				return;
			}
		} else {
			if (!cur || tpt_get_tp(cur) != pw->tp || cur == pw->pvt) {
				MSGV("msg-wrong-thread", "message %d for the virtual thread of pool %d executed outside that pool's workers (fiber %d)", m->id, m->pool, me);
				return;
			}
			sim_probe("msg.pvt_delivered");
		}
		if (!m->dst_running && !W.teardown) {
			MSGV("msg-to-stopped", "message %d queued-delivered to thread %d which the harness never started", m->id, m->dst);
			return;
		}
	}
	switch (m->kind) {
	case MK_STALL:
		sim_probe("msg.stall");
		sim_sleep_ns(m->stall_ns, "cb.stall");
		break;
	case MK_CARRIER:
		if (m->nested_op >= 0 && world_op_exec) {
			int saved = sim_get_op();
			sim_set_op(m->nested_op);
			world_op_exec(&W.plan->ops[m->nested_op], m->nested_op);
			sim_set_op(saved);
		}
		break;
	default:
		if (m->stall_ns) sim_sleep_ns(m->stall_ns, "cb.work");
		break;
	}
}

/* ------------------------------------------------------------------ queue byte streams (stray bytes in a queue)
 * The queue is a pipe of 32-byte packets. Stray bytes (a torn packet, somebody's write to the wrong descriptor)
 * make the reader resynchronise on the packet magic. What the code under test promises then is narrow, and the
 * ledger decides it exactly: reads return whole writes unless the read buffer is full, so only a packet that
 * STRADDLES the end of a (full) read can be torn and dropped by the resynchronisation; every other accepted
 * packet must still run exactly once, nothing may run twice, nothing that was never sent may run. */
static queue_w *queue_of_fd(int fd, int *pool, int *thr) {
	for (int k = 0; k < MAX_POOLS; k++)
		for (int t = 0; t <= W.pool[k].n && t <= MAX_THR; t++)
			if (W.q[k][t].rfd > 0 && (W.q[k][t].rfd == fd || W.q[k][t].wfd == fd)) { *pool = k; *thr = t; return &W.q[k][t]; }
	return NULL;
}
static void pipe_io_hook(int fd, int is_write, const void *buf, ssize_t n) {
	int k, t;
	queue_w *q = queue_of_fd(fd, &k, &t);
	if (!q) return;
	if (is_write) {
		if (n == 32) {
			void *ud; memcpy(&ud, (const char *)buf + 16, sizeof(ud));
			if ((uintptr_t)ud >= (uintptr_t)&g_msgs[0] && (uintptr_t)ud < (uintptr_t)&g_msgs[W.nmsgs]) {
				msg_rec *m = ud;
				m->q_known = 1; m->q_idx = k * (MAX_THR + 1) + t; m->q_off = q->wr_off;
			}
		}
		q->wr_off += (uint64_t)n;
	} else {
		q->rd_off += (uint64_t)n;
		if (q->damaged) {
			if (W.nqb < MAX_QBOUNDS) { W.qb[W.nqb].pool = (short)k; W.qb[W.nqb].thr = (short)t; W.qb[W.nqb].off = q->rd_off; W.nqb++; }
			else q->tolerate_all = 1;
		}
	}
}
void world_track_queues(int k) {
	pool_w *pw = &W.pool[k];
	for (int t = 0; t <= pw->n; t++) {
		tpt_p tpt = (t < pw->n) ? pw->thr[t] : pw->pvt;
		tp_udata_p qu = tpt ? tpt_get_msg_queue(tpt) : NULL;
		if (!qu) continue;
		W.q[k][t].rfd = (int)qu->ident;
		W.q[k][t].wfd = sim_fd_peer((int)qu->ident);
	}
	sim_on_pipe_io_hook = pipe_io_hook;
}
int world_queue_junk(int pool, int thr, int kbytes, int how) {
	pool_w *pw = &W.pool[pool];
	queue_w *q;
	unsigned char junk[64];
	ssize_t wr;
	if (thr < 0 || thr > pw->n) thr = pw->n;
	q = &W.q[pool][thr];
	if (q->wfd <= 0) return 0;
	if (kbytes < 1) kbytes = 1; if (kbytes > 31) kbytes = 31;
	/* The head of a packet is only used with 8..24 bytes. Fewer leave a PARTIAL magic: it can combine with the first
	 * bytes of the next packet into a false match, after which the reader's 8-byte skip jumps over the true magic -
	 * and more than 24 include check-sum bytes, so that 31 bytes plus the zero low byte of the next magic ARE a valid
	 * packet. Neither is something the property promises anything about (first version of this fault did both). */
	if (how == 0 && kbytes < 8) kbytes = 8; if (how == 0 && kbytes > 24) kbytes = 24;
	if (how == 0) {
		/* the head of a real packet (what a torn write would leave): magic, callback, ... */
		size_t pkt[4] = { 0xffddaa00u, (size_t)(uintptr_t)world_msg_cb, 0, 0 };
		pkt[3] = pkt[1] ^ pkt[2];
		memcpy(junk, pkt, 32);
	} else memset(junk, 0xa5, sizeof(junk));
	sim_yield("queue.junk");
	q->damaged = 1;   /* before the bytes are in: a reader may run at once */
	wr = write(q->wfd, junk, (size_t)kbytes);
	if (wr > 0) { q->wr_off += (uint64_t)wr; sim_probe("c05.queue_stray_bytes"); sim_hash_u64(0x10c0000ull + (uint64_t)wr); }
	sim_log("stray bytes: %zd byte(s) (%s) into the queue of pool %d thread %d", wr, how ? "0xa5 filler" : "head of a packet", pool, thr);
	sim_yield("queue.junk.done");
	return wr > 0 ? (int)wr : 0;
}
/* the packet of this message has been taken out of its queue by a worker (undamaged queues only) */
int world_msg_was_read(const msg_rec *m) {
	int k, t;
	if (!m->q_known) return 0;
	k = m->q_idx / (MAX_THR + 1); t = m->q_idx % (MAX_THR + 1);
	if (W.q[k][t].damaged) return 0;
	return m->q_off + 32 <= W.q[k][t].rd_off;
}
static int loss_excused(const msg_rec *m) {
	int k, t;
	queue_w *q;
	if (!m->q_known) return 0;
	k = m->q_idx / (MAX_THR + 1); t = m->q_idx % (MAX_THR + 1);
	q = &W.q[k][t];
	if (!q->damaged) return 0;
	if (q->tolerate_all) return 1;
	for (int i = 0; i < W.nqb; i++)
		if (W.qb[i].pool == k && W.qb[i].thr == t && W.qb[i].off > m->q_off && W.qb[i].off < m->q_off + 32) return 1;
	return 0;
}

int world_send(msg_rec *m, tpt_p src_explicit) {
	pool_w *pw = &W.pool[m->pool];
	tpt_p dst = (m->dst < 0) ? pw->pvt : pw->thr[m->dst];
	int rc;
	m->sent = 1;
	m->send_fiber = sim_self();
	m->sender_tpt = src_explicit ? src_explicit : tpt_get_current();
	m->dst_running = (m->dst < 0) ? 1 : !pw->never_started[m->dst];
	m->qfail_before = sim_qwrite_fails();
	m->in_send = 1;
	m->invoke_seq = sim_evseq();
	sim_hash_u64(0x5e4d0000ull + (uint64_t)m->id);
	rc = tpt_msg_send(dst, src_explicit, m->flags, world_msg_cb, m);
	m->in_send = 0;
	m->return_seq = sim_evseq();
	m->rc = rc;
	sim_log("msg %d send dst=%d flags=%x -> rc=%d", m->id, m->dst, m->flags, rc);
	/* return-code oracle */
	if (0 == rc) {
		if (m->exec_count == 0 && !m->dst_running) {
			MSGV("msg-accepted-for-stopped", "send of message %d to never-started thread %d returned 0 without running the callback", m->id, m->dst);
		}
	} else {
		int qf = sim_qwrite_fails() - m->qfail_before;
		if (m->exec_count != 0 && m->exec_sync) {
			MSGV("msg-fail-but-ran", "send of message %d returned %d although the callback was run directly", m->id, rc);
		} else if (!m->dst_running) {
			if (rc != EHOSTDOWN) MSGV("msg-bad-errno", "send to a not-running thread returned %d, documented is EHOSTDOWN(%d)", rc, EHOSTDOWN);
		} else if (qf > 0) {
			if (rc != sim_qwrite_fail_errno()) MSGV("msg-bad-errno", "queue write failed with errno %d but the send returned %d", sim_qwrite_fail_errno(), rc);
			sim_probe("msg.send_failed_reported");
		} else {
			MSGV("msg-spurious-failure", "send of message %d returned %d although the destination runs and the queue write did not fail", m->id, rc);
		}
	}
	return rc;
}

void world_check_messages(int final) {
	/* completeness + FIFO; called at quiescence with the pool still running */
	for (int i = 0; i < W.nmsgs; i++) {
		msg_rec *m = &g_msgs[i];
		if (!m->sent) continue;
		if (m->rc == 0 && m->exec_count == 0 && m->dst < 0) {
			/* the virtual thread is served by the workers: with none running nobody can ever serve it */
			pool_w *pw = &W.pool[m->pool];
			int workers = 0;
			for (int t = 0; t < pw->n; t++) if (!pw->never_started[t]) workers++;
			if (0 == workers) { sim_probe("msg.pvt_no_worker"); continue; }
		}
		if (m->rc == 0 && m->exec_count == 0 && final && loss_excused(m)) { sim_probe("msg.lost_straddling_a_read_after_stray_bytes"); continue; }
		if (m->rc == 0 && m->exec_count != 1 && final) {
			MSGV("msg-lost", "message %d (op %d, dst %d of pool %d, flags %x) was accepted (rc 0) but executed %d times by quiescence", m->id, m->op, m->dst, m->pool, m->flags, m->exec_count);
			return;
		}
		if (m->rc != 0 && m->exec_count != 0) {
			MSGV("msg-fail-but-ran", "message %d: send returned %d but the callback ran %d time(s)", m->id, m->rc, m->exec_count);
			return;
		}
	}
	/* FIFO per (sender fiber, real destination) among queued deliveries */
	for (int i = 0; i < W.nmsgs; i++) {
		msg_rec *a = &g_msgs[i];
		if (!a->sent || a->rc != 0 || a->exec_count != 1 || a->exec_sync || a->dst < 0) continue;
		for (int j = i + 1; j < W.nmsgs; j++) {
			msg_rec *b = &g_msgs[j];
			if (!b->sent || b->rc != 0 || b->exec_count != 1 || b->exec_sync) continue;
			if (b->pool != a->pool || b->dst != a->dst || b->send_fiber != a->send_fiber) continue;
			if ((a->invoke_seq < b->invoke_seq) != (a->exec_seq < b->exec_seq)) {
				MSGV("msg-reordered", "messages %d and %d from fiber %d to thread %d ran out of send order", a->id, b->id, a->send_fiber, a->dst);
				return;
			}
			break; /* adjacent pairs suffice (transitivity), keeps this O(n * gap) */
		}
	}
}

int world_send_carrier(int opidx, int pool, int thr) {
	msg_rec *m = world_new_msg(opidx, MK_CARRIER, pool, thr, 0);
	m->nested_op = opidx;
	return world_send(m, NULL);
}
