/* C16: I/O tasks move exactly the bytes, in order, and report EOF, errors and timeouts. */
#define _GNU_SOURCE 1
#include <sys/mman.h>
#include <sys/stat.h>
#include <stdio.h>
#include <stdlib.h>
#include <string.h>
#include <errno.h>
#include <unistd.h>
#include <fcntl.h>
#include <sys/socket.h>
#include <sys/un.h>
#include <netinet/in.h>
#include <arpa/inet.h>
#include "pool.h"
#include "threadpool/threadpool_task.h"

enum { K_RECV = 0, K_SEND, K_DGRAM, K_ACCEPT, K_CONNECT, K_CONNEX, K_NOTIFY, K_NKINDS };
enum { ST_NONE = 0, ST_ARMED, ST_PARKED, ST_STOPPED, ST_DEAD };
enum { A_CONTINUE = 0, A_PARK, A_STOP, A_DESTROY };
#define MAX_TASK 2
#define PAY_MAX  8192
#define BUF_MAX  4096
#define CANARY   64

typedef struct tk {
	int        slot, kind, thr;
	tp_task_p  task;
	int        fd, peer;            /* task side descriptor, harness (peer) side */
	int        state;
	uint16_t   evfl;
	uint32_t   tflags;
	uint64_t   timeout_ms;
	unsigned   cbseed;
	int        ncb;                 /* callback invocations */
	/* buffer */
	io_buf_t   buf;
	uint8_t    mem[CANARY + BUF_MAX + CANARY];
	size_t     init_off, init_tr, init_used;
	size_t     last_off;            /* buf.offset when the previous callback returned / at start */
	size_t     done;                /* bytes reported to callbacks so far (sum of transfered_size) */
	/* stream model */
	size_t     peer_sent;           /* recv kinds: bytes the peer wrote ; send: bytes the peer read */
	size_t     plen;
	int        peer_closed, peer_reset, peer_halfclosed;
	int        eof_reported, err_reported, timeouts;
	uint64_t   last_arm;            /* lower bound of the time the inactivity timer was last (re)armed */
	int        in_cb;
	int        expect_silence;      /* stop/destroy/park returned on the owning thread: no further callback */
	/* datagrams */
	int        dg_sent, dg_recv;
	size_t     dg_len[64];
	int        dg_bound;            /* receiver and two senders are bound sockets with names of different length */
	int        peer2;
	char       dg_name[2][64];
	uint8_t    dg_from[64];
	/* accept */
	int        conn_made, conn_accepted;
	int        lfd;
	char       path[40];
	/* connect */
	int        conn_cb;
	int        conn_expect_ok;
	uint64_t   started_at;
	int        faults_seen;
	/* connect_ex */
	tp_task_conn_prms_t prms;
	struct sockaddr_storage addrs[3];
	int        ep_mode[3];
	uint64_t   ep_delay_ns[3];
	int        cx_attempts[3];      /* connect() calls per address */
	uint64_t   cx_last_attempt[3];
	uint64_t   cx_first_attempt, cx_last_any;
	int        cx_total_attempts;
	int        cx_success, cx_final_fail, cx_fail_reports;
	int        cx_created;
	int        hsw_task;            /* created for another handler and switched */
	int        ext_in_start;        /* a non-pool thread is inside tp_task_start() for this task right now */
	int        starting;            /* inside tp_task_start_ex(0,...): a callback now is the direct first I/O, nothing is scheduled yet */
} tk;

static tk T[MAX_TASK];
static pool_w *PW;
static int g_uniq;

static inline uint8_t pay(int slot, size_t i) { return (uint8_t)(i * 167u + (i >> 8) * 13u + (unsigned)slot * 71u + 5u); }

static int own_thread(tk *t) { return tpt_get_current() == PW->thr[t->thr]; }

static unsigned script(tk *t, int n) {
	unsigned x = t->cbseed * 2654435761u + (unsigned)n * 40503u + 977u;
	x ^= x >> 15; x *= 2246822519u; x ^= x >> 13;
	return x;
}
/* what the callback does after an ordinary data delivery */
static int next_action(tk *t) {
	unsigned r = script(t, t->ncb) % 100;
	if (r < 78) return A_CONTINUE;
	if (r < 86) return (t->evfl & TP_F_DISPATCH) ? A_PARK : A_STOP;
	if (r < 96) return A_STOP;
	return A_DESTROY;
}

static void check_canaries(tk *t) {
	for (int i = 0; i < CANARY; i++)
		if (t->mem[i] != 0xC3 || t->mem[CANARY + BUF_MAX + i] != 0xC3) { sim_violation("io-buffer-overrun", "task %d: bytes outside the caller's buffer were written", t->slot); return; }
	/* inside the buffer but outside the transfer window */
	for (size_t i = 0; i < t->buf.size; i++) {
		if (i >= t->init_off && i < t->init_off + t->init_tr) continue;
		if (t->mem[CANARY + i] != 0x3C) { sim_violation("io-window-overrun", "task %d: byte %zu of the buffer lies outside the transfer window [%zu,+%zu) but was modified", t->slot, i, t->init_off, t->init_tr); return; }
	}
}

static void apply_action(tk *t, int act) {
	switch (act) {
	case A_PARK:
		if (t->starting) { t->state = ST_STOPPED; t->expect_silence = 1; sim_probe("c16.cb_park_in_direct_io"); break; } /* never scheduled: tp_task_restart() is the way back */
		t->state = ST_PARKED; t->expect_silence = 1; sim_probe("c16.cb_park");
		break;
	case A_STOP:
		tp_task_stop(t->task);
		t->state = ST_STOPPED; t->expect_silence = 1; sim_probe("c16.cb_stop");
		break;
	case A_DESTROY:
		tp_task_destroy(t->task);
		t->task = NULL;
		t->state = ST_DEAD; t->expect_silence = 1; sim_probe("c16.cb_destroy");
		break;
	default: break;
	}
}

static int g_enobufs_cb;   /* callbacks that were told ENOBUFS (only an injected fault produces it here) */
static int cb_common_entry(tk *t, const char *what) {
	if (sim_faults_fired() > 0) t->faults_seen = 1;
	if (!own_thread(t)) { sim_violation("io-wrong-thread", "task %d: %s callback ran on a thread other than the task's", t->slot, what); return -1; }
	if (t->state == ST_DEAD) { sim_violation("io-callback-after-destroy", "task %d: %s callback after tp_task_destroy returned on the task's thread", t->slot, what); return -1; }
	if (t->expect_silence || t->state == ST_STOPPED || t->state == ST_PARKED) {
		sim_violation("io-callback-while-silent", "task %d (kind %d evfl %x): %s callback although the task is %s (that call had returned on the task's own thread)", t->slot, t->kind, t->evfl, what,
		    t->state == ST_PARKED ? "parked by a non-CONTINUE return of a dispatch task" : "stopped");
		return -1;
	}
	t->ncb++;
	sim_hash_u64(0xcb160000ull + ((uint64_t)t->slot << 8) + (uint64_t)(t->ncb & 0xff));
	return 0;
}

/* ------------------------------------------------------------------ stream callbacks */
static int stream_cb(tp_task_p tptask, int error, io_buf_p buf, uint32_t eof, size_t transfered_size, void *udata) {
	tk *t = udata;
	int act;
	if ((uintptr_t)udata < (uintptr_t)&T[0] || (uintptr_t)udata >= (uintptr_t)&T[MAX_TASK]) { sim_violation("io-bad-arg", "task callback with unknown user data"); return TP_TASK_CB_NONE; }
	if (t->ext_in_start && error == ETIMEDOUT) {
		/* precondition of known finding KF-C16-1: the timeout (armed first) expired before the starting thread got
		 * round to registering the I/O event; whatever this callback decides, the starter registers it afterwards */
		sim_probe("c16.timeout_before_foreign_start_returned");
		sim_set_context_tag("timeout-before-foreign-start-returned");
	}
	if (cb_common_entry(t, "stream")) return TP_TASK_CB_NONE;
	if (error == ENOBUFS) g_enobufs_cb++;
	sim_log("task %d cb#%d error=%d eof=%x transfered=%zu off=%zu used=%zu tr=%zu", t->slot, t->ncb, error, eof, transfered_size, buf ? buf->offset : 0, buf ? buf->used : 0, buf ? buf->transfer_size : 0);
	if (tptask != t->task || buf != &t->buf) { sim_violation("io-bad-arg", "task %d: callback received another task/buffer", t->slot); return TP_TASK_CB_NONE; }
	if (buf->offset > buf->size || buf->used > buf->size || buf->offset + buf->transfer_size > buf->size) {
		sim_violation("io-cursor", "task %d: buffer cursors exceed the buffer (offset %zu used %zu transfer %zu size %zu)", t->slot, buf->offset, buf->used, buf->transfer_size, buf->size);
		return TP_TASK_CB_NONE;
	}
	/* cursors move by exactly the transferred amount */
	if (buf->offset != t->last_off + transfered_size) {
		sim_violation("io-count", "task %d (kind %d evfl %x flags %x): callback reports %zu transferred byte(s) but the buffer offset moved from %zu to %zu (%zu)", t->slot, t->kind, t->evfl, t->tflags,
		    transfered_size, t->last_off, buf->offset, buf->offset - t->last_off);
		return TP_TASK_CB_NONE;
	}
	if (buf->transfer_size != t->init_tr - (t->done + transfered_size)) {
		sim_violation("io-cursor", "task %d: remaining transfer size %zu, expected %zu", t->slot, buf->transfer_size, t->init_tr - (t->done + transfered_size));
		return TP_TASK_CB_NONE;
	}
	if (t->kind == K_RECV) {
		if (buf->used != t->init_used + t->done + transfered_size) { sim_violation("io-cursor", "task %d: buffer 'used' is %zu, expected %zu", t->slot, buf->used, t->init_used + t->done + transfered_size); return TP_TASK_CB_NONE; }
		for (size_t i = 0; i < transfered_size; i++) {
			if (buf->data[t->last_off + i] != pay(t->slot, t->done + i)) {
				sim_violation("io-data", "task %d: byte %zu of the stream arrived wrong (or out of order) in the buffer", t->slot, t->done + i);
				return TP_TASK_CB_NONE;
			}
		}
		if (t->done + transfered_size > t->peer_sent) { sim_violation("io-data", "task %d: callback reports %zu byte(s) in total but the peer only sent %zu", t->slot, t->done + transfered_size, t->peer_sent); return TP_TASK_CB_NONE; }
	}
	t->done += transfered_size;
	t->last_off = buf->offset;
	check_canaries(t);
	if (sim_violated()) return TP_TASK_CB_NONE;
	if (error == ETIMEDOUT) {
		uint64_t need = t->last_arm + t->timeout_ms * 1000000ull;
		t->timeouts++;
		sim_probe("c16.timeout_reported");
		if (0 == t->timeout_ms) { sim_violation("io-timeout", "task %d: timeout reported although no timeout is configured", t->slot); return TP_TASK_CB_NONE; }
		if (sim_now() < need) {
			sim_violation("io-timeout", "task %d: timeout reported at t=%llu ns although the inactivity timer was (re)armed at %llu ns and the timeout is %llu ms", t->slot, (unsigned long long)sim_now(), (unsigned long long)t->last_arm, (unsigned long long)t->timeout_ms);
			return TP_TASK_CB_NONE;
		}
		if (transfered_size != 0 && 0) { }
		act = (script(t, t->ncb) % 100 < 60) ? A_CONTINUE : A_STOP;
		if (t->evfl & TP_F_ONESHOT) act = A_STOP;
		apply_action(t, act);
		if (act == A_CONTINUE) { t->last_arm = sim_now(); return TP_TASK_CB_CONTINUE; }
		return TP_TASK_CB_NONE;
	}
	if (error != 0) {
		t->err_reported++;
		sim_probe("c16.error_reported");
		if (!t->peer_closed && !t->faults_seen) { sim_violation("io-false-error", "task %d: error %d reported although the peer is open and no fault was injected", t->slot, error); return TP_TASK_CB_NONE; }
		if (t->kind == K_RECV && !t->faults_seen) {
			/* bytes that had arrived before the connection broke are still readable and belong to the callback */
			size_t want = t->peer_sent < t->init_tr ? t->peer_sent : t->init_tr;
			/* callback-after-every-read reports after ONE recv; if the kernel cut that recv short (injected) the
			 * rest is still in the socket when the error is handed over - nothing the task could have known */
			if (t->done < want && !((t->tflags & TP_TASK_F_CB_AFTER_EVERY_READ) && sim_fault_fired_site("recv.short") > 0)) {
				sim_violation("io-data-lost-at-error", "task %d (evfl %x flags %x): error %d reported with %zu byte(s) delivered in total although %zu byte(s) had arrived before the peer reset and the window still has %zu free", t->slot, t->evfl, t->tflags,
				    error, t->done, t->peer_sent, buf->transfer_size);
				return TP_TASK_CB_NONE;
			}
		}
		apply_action(t, A_STOP);
		return TP_TASK_CB_NONE;
	}
	if (eof != 0) {
		t->eof_reported++;
		sim_probe("c16.eof_reported");
		if (!t->peer_closed) { sim_violation("io-false-eof", "task %d: end of stream (%x) reported although the peer is open", t->slot, eof); return TP_TASK_CB_NONE; }
		if (t->kind == K_RECV && t->peer_reset && !t->faults_seen && 0 == t->err_reported) {
			/* the peer did not close, it RESET the connection (closed with our data unread): that is a socket error */
			sim_violation("io-error-missed", "task %d (evfl %x flags %x): the connection was reset by the peer, but the callback was told a plain end of stream (%x) and no error", t->slot, t->evfl, t->tflags, eof);
			return TP_TASK_CB_NONE;
		}
		if (t->kind == K_RECV && t->done < t->peer_sent && buf->transfer_size > 0 && (eof & TP_TASK_IOF_F_BUF)) {
			sim_violation("io-eof-early", "task %d: end of stream reported after %zu of %zu bytes with %zu bytes of window left", t->slot, t->done, t->peer_sent, buf->transfer_size);
			return TP_TASK_CB_NONE;
		}
		if (t->kind == K_RECV && t->done < t->peer_sent && buf->transfer_size > 0 && !(t->evfl & TP_F_ONESHOT)) {
			/* more data is still in the socket: keep reading, the end will be reported again */
			t->last_arm = sim_now();
			return TP_TASK_CB_CONTINUE;
		}
		apply_action(t, A_STOP);
		return TP_TASK_CB_NONE;
	}
	/* plain progress */
	if (buf->transfer_size == 0) {
		sim_probe("c16.window_complete");
		apply_action(t, (t->evfl & TP_F_DISPATCH) && (script(t, t->ncb) & 1) ? A_PARK : A_STOP);
		return TP_TASK_CB_NONE;
	}
	if (transfered_size == 0 && t->kind == K_RECV && !(t->tflags & TP_TASK_F_CB_AFTER_EVERY_READ) && 0) { }
	if (t->evfl & TP_F_ONESHOT) { apply_action(t, A_STOP); return TP_TASK_CB_NONE; } /* never CONTINUE on a one-shot task */
	act = next_action(t);
	apply_action(t, act);
	if (act == A_CONTINUE) { t->last_arm = sim_now(); return TP_TASK_CB_CONTINUE; }
	return TP_TASK_CB_NONE;
}

/* ------------------------------------------------------------------ datagram / accept / connect callbacks */
static int dgram_cb(tp_task_p tptask, int error, struct sockaddr_storage *addr, io_buf_p buf, size_t transfered_size, void *udata) {
	tk *t = udata;
	if (cb_common_entry(t, "datagram")) return TP_TASK_CB_NONE;
	if (error == ENOBUFS) g_enobufs_cb++;
	if (tptask != t->task || buf != &t->buf) { sim_violation("io-bad-arg", "task %d: callback received another task/buffer", t->slot); return TP_TASK_CB_NONE; }
	if (error == ETIMEDOUT) {
		t->timeouts++;
		if (sim_now() < t->last_arm + t->timeout_ms * 1000000ull) { sim_violation("io-timeout", "task %d: datagram timeout reported before the configured inactivity elapsed", t->slot); return TP_TASK_CB_NONE; }
		t->last_arm = sim_now();
		return TP_TASK_CB_CONTINUE;
	}
	if (error != 0) {
		/* an error report is not a datagram and a datagram is not an error report */
		if (transfered_size != 0 || addr != NULL) { sim_violation("io-error-with-data", "task %d: datagram callback with error %d AND a datagram of %zu byte(s)", t->slot, error, transfered_size); return TP_TASK_CB_NONE; }
		t->err_reported++;
		if (!t->faults_seen && !t->peer_closed) { sim_violation("io-false-error", "task %d: datagram error %d without a fault", t->slot, error); return TP_TASK_CB_NONE; }
		if (t->faults_seen && !t->peer_closed && script(t, t->ncb) % 100 < 60) { sim_probe("c16.dgram_continue_after_error"); t->last_arm = sim_now(); return TP_TASK_CB_CONTINUE; } /* transient: carry on */
		apply_action(t, A_STOP);
		return TP_TASK_CB_NONE;
	}
	if (t->dg_recv >= t->dg_sent) { sim_violation("io-data", "task %d: datagram #%d delivered but only %d were sent", t->slot, t->dg_recv, t->dg_sent); return TP_TASK_CB_NONE; }
	if (transfered_size != t->dg_len[t->dg_recv]) { sim_violation("io-count", "task %d: datagram #%d reported with %zu bytes, %zu were sent", t->slot, t->dg_recv, transfered_size, t->dg_len[t->dg_recv]); return TP_TASK_CB_NONE; }
	if (buf->offset != t->last_off + transfered_size) { sim_violation("io-count", "task %d: datagram of %zu bytes moved the buffer offset from %zu to %zu", t->slot, transfered_size, t->last_off, buf->offset); return TP_TASK_CB_NONE; }
	if (t->dg_bound) {
		/* each datagram comes with the address of ITS sender (path names: the kernel hands them over NUL terminated) */
		const struct sockaddr_un *su = (const struct sockaddr_un *)(const void *)addr;
		const char *want = t->dg_name[t->dg_from[t->dg_recv]];
		if (!addr || su->sun_family != AF_UNIX || 0 != strncmp(su->sun_path, want, sizeof(su->sun_path))) {
			size_t gl = 0, common = 0;
			if (addr) { gl = strnlen(su->sun_path, sizeof(su->sun_path)); while (common < gl && want[common] && want[common] == su->sun_path[common]) common++; }
			/* (no names in the message: they contain the process id) */
			sim_violation("io-dgram-addr", "task %d: datagram #%d came from sender %d (address of %zu bytes) but was delivered with %s (%zu bytes, the first %zu agree)", t->slot, t->dg_recv, t->dg_from[t->dg_recv], strlen(want),
			    addr ? "another peer address" : "no peer address", gl, common);
			return TP_TASK_CB_NONE;
		}
		sim_probe("c16.dgram_addr_checked");
	}
	for (size_t i = 0; i < transfered_size; i++)
		if (buf->data[t->last_off + i] != pay(t->slot, (size_t)t->dg_recv * 257u + i)) { sim_violation("io-data", "task %d: datagram #%d byte %zu wrong", t->slot, t->dg_recv, i); return TP_TASK_CB_NONE; }
	t->dg_recv++;
	check_canaries(t);
	/* the user consumes the datagram and hands the whole window back */
	buf->offset = t->init_off; buf->used = t->init_used; buf->transfer_size = t->init_tr;
	t->last_off = buf->offset;
	memset(buf->data + t->init_off, 0x77, t->init_tr);
	t->last_arm = sim_now();
	if (script(t, t->ncb) % 100 < 6) { apply_action(t, A_STOP); return TP_TASK_CB_NONE; }
	return TP_TASK_CB_CONTINUE;
}

/* readiness notifier: the library moves nothing, the user (here) reads what is there */
static int notify_cb(tp_task_p tptask, int error, uint32_t eof, size_t data2transfer_size, void *udata) {
	tk *t = udata;
	uint8_t tmp[512];
	(void)data2transfer_size;
	if (cb_common_entry(t, "notify")) return TP_TASK_CB_NONE;
	if (tptask != t->task) { sim_violation("io-bad-arg", "task %d: notify callback received another task", t->slot); return TP_TASK_CB_NONE; }
	sim_log("task %d notify cb#%d error=%d eof=%x avail=%zu", t->slot, t->ncb, error, eof, data2transfer_size);
	if (error == ETIMEDOUT) {
		t->timeouts++;
		sim_probe("c16.timeout_reported");
		if (0 == t->timeout_ms || sim_now() < t->last_arm + t->timeout_ms * 1000000ull) { sim_violation("io-timeout", "task %d: notify timeout reported at %llu ns, timer (re)armed at %llu ns, timeout %llu ms", t->slot, (unsigned long long)sim_now(), (unsigned long long)t->last_arm, (unsigned long long)t->timeout_ms); return TP_TASK_CB_NONE; }
		if (script(t, t->ncb) % 100 < 60) { t->last_arm = sim_now(); return TP_TASK_CB_CONTINUE; }
		apply_action(t, A_STOP);
		return TP_TASK_CB_NONE;
	}
	for (;;) {
		ssize_t rd = read(t->fd, tmp, sizeof(tmp));
		if (rd <= 0) break;
		for (ssize_t i = 0; i < rd; i++)
			if (tmp[i] != pay(t->slot, t->done + (size_t)i)) { sim_violation("io-data", "task %d: byte %zu read after a readiness notification is wrong", t->slot, t->done + (size_t)i); return TP_TASK_CB_NONE; }
		t->done += (size_t)rd;
	}
	sim_fd_activity();
	if (error != 0) {
		t->err_reported++;
		sim_probe("c16.error_reported");
		if (!t->peer_closed && !t->faults_seen) { sim_violation("io-false-error", "task %d: notify error %d although the peer is open", t->slot, error); return TP_TASK_CB_NONE; }
		apply_action(t, A_STOP);
		return TP_TASK_CB_NONE;
	}
	if (eof != 0) {
		t->eof_reported++;
		sim_probe("c16.eof_reported");
		if (!t->peer_closed) { sim_violation("io-false-eof", "task %d: notify reports end of stream (%x) although the peer is open", t->slot, eof); return TP_TASK_CB_NONE; }
		apply_action(t, A_STOP);
		return TP_TASK_CB_NONE;
	}
	sim_probe("c16.notify_ready");
	{
		int act = next_action(t);
		apply_action(t, act);
		if (act == A_CONTINUE) { t->last_arm = sim_now(); return TP_TASK_CB_CONTINUE; }
	}
	return TP_TASK_CB_NONE;
}

static int accept_cb(tp_task_p tptask, int error, uintptr_t skt_new, struct sockaddr_storage *addr, void *udata) {
	tk *t = udata;
	(void)addr;
	if (cb_common_entry(t, "accept")) return TP_TASK_CB_NONE;
	if (error == ENOBUFS) g_enobufs_cb++;
	if (tptask != t->task) { sim_violation("io-bad-arg", "task %d: accept callback received another task", t->slot); return TP_TASK_CB_NONE; }
	if (error == ETIMEDOUT) {
		t->timeouts++;
		if (sim_now() < t->last_arm + t->timeout_ms * 1000000ull) { sim_violation("io-timeout", "task %d: accept timeout reported before the configured inactivity elapsed", t->slot); return TP_TASK_CB_NONE; }
		t->last_arm = sim_now();
		return TP_TASK_CB_CONTINUE;
	}
	if (error != 0) { t->err_reported++; if (!t->faults_seen) sim_violation("io-false-error", "task %d: accept error %d without a fault", t->slot, error); apply_action(t, A_STOP); return TP_TASK_CB_NONE; }
	if ((uintptr_t)-1 == skt_new) { sim_violation("io-data", "task %d: accept callback without a socket and without an error", t->slot); return TP_TASK_CB_NONE; }
	t->conn_accepted++;
	if (t->conn_accepted > t->conn_made) { sim_violation("io-data", "task %d: %d connections accepted but only %d were made", t->slot, t->conn_accepted, t->conn_made); return TP_TASK_CB_NONE; }
	close((int)skt_new); sim_fd_forget((int)skt_new);
	t->last_arm = sim_now();
	return TP_TASK_CB_CONTINUE;
}

static int connect_cb(tp_task_p tptask, int error, void *udata) {
	tk *t = udata;
	if (cb_common_entry(t, "connect")) return TP_TASK_CB_NONE;
	if (tptask != t->task) { sim_violation("io-bad-arg", "task %d: connect callback received another task", t->slot); return TP_TASK_CB_NONE; }
	t->conn_cb++;
	sim_log("task %d connect cb error=%d", t->slot, error);
	if (t->conn_cb > 1) { sim_violation("io-connect-twice", "task %d: connect completion reported %d times", t->slot, t->conn_cb); return TP_TASK_CB_NONE; }
	if (error == ETIMEDOUT) {
		if (0 == t->timeout_ms || sim_now() < t->started_at + t->timeout_ms * 1000000ull) sim_violation("io-timeout", "task %d: connect timeout reported before the configured time elapsed", t->slot);
		t->timeouts++;
	} else if (error != 0) { if (!t->peer_closed && !t->faults_seen) sim_violation("io-false-error", "task %d: connect error %d although the peer is fine", t->slot, error); }
	/* the handler stopped the task before calling us */
	t->state = ST_STOPPED; t->expect_silence = 1;
	return TP_TASK_CB_NONE;
}


/* ------------------------------------------------------------------ connect_ex */
static void connex_on_connect(int port, int mode, uint64_t now) {
	int slot = (port - 7000) / 10, ai = (port - 7000) % 10;
	tk *t;
	(void)mode;
	if (slot < 0 || slot >= MAX_TASK || ai < 0 || ai >= 3) return;
	t = &T[slot];
	if (t->kind != K_CONNEX) return;
	t->cx_attempts[ai]++; t->cx_total_attempts++;
	if (!t->cx_first_attempt) t->cx_first_attempt = now ? now : 1;
	if (t->cx_success || t->cx_final_fail) sim_violation("io-connex-after-end", "task %d: a new connect attempt (address %d) after the final result was reported", slot, ai);
	if (t->prms.time_limit && now > t->started_at + t->prms.time_limit * 1000000ull + 1000000ull)
		sim_violation("io-connex-limit", "task %d: connect attempt to address %d at +%llu ms although the time limit is %llu ms", slot, ai, (unsigned long long)((now - t->started_at) / 1000000ull), (unsigned long long)t->prms.time_limit);
	if (t->prms.max_tries) {
		int rr = (t->prms.flags & TP_TASK_CONNECT_F_ROUND_ROBIN) != 0;
		if (t->cx_attempts[ai] > (int)t->prms.max_tries + (rr ? 0 : 0))
			sim_violation("io-connex-limit", "task %d: address %d tried %d times, max_tries is %llu", slot, ai, t->cx_attempts[ai], (unsigned long long)t->prms.max_tries);
	}
	if (t->prms.retry_delay && t->cx_attempts[ai] > 1 && now < t->cx_last_attempt[ai] + t->prms.retry_delay * 1000000ull)
		sim_violation("io-connex-delay", "task %d: address %d retried after %llu us, retry delay is %llu ms", slot, ai, (unsigned long long)((now - t->cx_last_attempt[ai]) / 1000ull), (unsigned long long)t->prms.retry_delay);
	if ((t->prms.flags & TP_TASK_CONNECT_F_INITIAL_DELAY) && t->cx_total_attempts == 1 && now < t->started_at + t->prms.retry_delay * 1000000ull)
		sim_violation("io-connex-delay", "task %d: first attempt at +%llu us although an initial delay of %llu ms was requested", slot, (unsigned long long)((now - t->started_at) / 1000ull), (unsigned long long)t->prms.retry_delay);
	t->cx_last_attempt[ai] = now; t->cx_last_any = now;
	sim_probe("c16.connex_attempt");
}

static int connex_cb(tp_task_p tptask, int error, tp_task_conn_prms_p prms, size_t addr_index, void *udata) {
	tk *t = udata;
	if ((uintptr_t)udata < (uintptr_t)&T[0] || (uintptr_t)udata >= (uintptr_t)&T[MAX_TASK]) { sim_violation("io-bad-arg", "connect_ex callback with unknown user data"); return TP_TASK_CB_NONE; }
	if (!own_thread(t) && t->cx_created) { sim_violation("io-wrong-thread", "task %d: connect_ex callback ran on a thread other than the task's", t->slot); return TP_TASK_CB_NONE; }
	if (t->state == ST_DEAD) { sim_violation("io-callback-after-destroy", "task %d: connect_ex callback after destroy", t->slot); return TP_TASK_CB_NONE; }
	t->ncb++;
	sim_hash_u64(0xcbe0000ull + ((uint64_t)t->slot << 12) + ((uint64_t)(error & 0xff) << 4) + addr_index);
	sim_log("task %d connect_ex cb error=%d addr=%zu", t->slot, error, addr_index);
	if (tptask != t->task && t->cx_created) { sim_violation("io-bad-arg", "task %d: connect_ex callback for another task", t->slot); return TP_TASK_CB_NONE; }
	if (prms != &t->prms) { sim_violation("io-bad-arg", "task %d: connect_ex callback with other parameters", t->slot); return TP_TASK_CB_NONE; }
	if (t->cx_success || t->cx_final_fail) { sim_violation("io-connex-after-end", "task %d: connect_ex callback (error %d) after the final result was already reported", t->slot, error); return TP_TASK_CB_NONE; }
	if (0 == error) {
		if (addr_index >= t->prms.addrs_count) { sim_violation("io-connex-result", "task %d: connected to address index %zu of %zu", t->slot, addr_index, t->prms.addrs_count); return TP_TASK_CB_NONE; }
		if (t->ep_mode[addr_index] != SIM_NET_ACCEPT && t->ep_mode[addr_index] != SIM_NET_IMMEDIATE_OK) {
			sim_violation("io-connex-result", "task %d: success reported for address %zu which never accepts (mode %d)", t->slot, addr_index, t->ep_mode[addr_index]);
			return TP_TASK_CB_NONE;
		}
		if (t->cx_attempts[addr_index] == 0) { sim_violation("io-connex-result", "task %d: success reported for address %zu which was never tried", t->slot, addr_index); return TP_TASK_CB_NONE; }
		t->cx_success = 1; sim_probe("c16.connex_success");
		t->state = ST_STOPPED;
		return TP_TASK_CB_NONE;
	}
	if (-1 == error) { t->cx_final_fail = 1; sim_probe("c16.connex_final_failure"); t->state = ST_STOPPED; return TP_TASK_CB_NONE; }
	/* a failed attempt, reported because CB_AFTER_EVERY_READ was requested */
	t->cx_fail_reports++;
	if (!(t->tflags & TP_TASK_F_CB_AFTER_EVERY_READ)) { sim_violation("io-connex-result", "task %d: failed attempt (error %d) reported although reports were not requested", t->slot, error); return TP_TASK_CB_NONE; }
	if (error == ETIMEDOUT) {
		if (!t->timeout_ms || sim_now() < t->cx_last_any + t->timeout_ms * 1000000ull) { sim_violation("io-timeout", "task %d: connect attempt timed out after %llu us, timeout is %llu ms", t->slot, (unsigned long long)((sim_now() - t->cx_last_any) / 1000ull), (unsigned long long)t->timeout_ms); return TP_TASK_CB_NONE; }
		sim_probe("c16.connex_attempt_timeout");
	}
	if (script(t, t->ncb) % 100 < 10) { t->cx_final_fail = 1; t->state = ST_STOPPED; sim_probe("c16.connex_user_gave_up"); return TP_TASK_CB_NONE; } /* the user gives up */
	return TP_TASK_CB_CONTINUE;
}

/* ------------------------------------------------------------------ ops */
static void buf_setup(tk *t, const item_t *it) {
	size_t size = (size_t)item_get(it, "size", 256), off = (size_t)item_get(it, "off", 0), tr = (size_t)item_get(it, "tr", 0);
	if (size < 8) size = 8; if (size > BUF_MAX) size = BUF_MAX;
	if (off >= size) off = size - 1;
	if (tr == 0 || off + tr > size) tr = size - off;
	memset(t->mem, 0xC3, sizeof(t->mem));
	memset(t->mem + CANARY, 0x3C, size);
	t->buf.data = t->mem + CANARY; t->buf.size = size; t->buf.flags = 0;
	t->buf.offset = off; t->buf.transfer_size = tr;
	t->buf.used = (t->kind == K_SEND) ? off + tr : off;
	/* the window need not sit at the fill mark: a receive window may start beyond it, a send window may reach beyond it */
	{ size_t ug = (size_t)item_get(it, "ugap", 0); if (ug) { size_t base = (t->kind == K_SEND) ? tr : off; t->buf.used -= ug % (base + 1); } }
	if (t->kind == K_SEND) for (size_t i = 0; i < tr; i++) t->buf.data[off + i] = pay(t->slot, i);
	t->init_off = off; t->init_tr = tr; t->init_used = t->buf.used; t->last_off = off; t->done = 0;
}

static void op_task(const item_t *it) {
	int slot = (int)item_get(it, "t", 0) % MAX_TASK, rc = 0, sv[2] = { -1, -1 };
	tk *t = &T[slot];
	tpt_p tpt;
	if (t->state != ST_NONE) return;
	memset(t, 0, sizeof(*t));
	t->slot = slot; t->kind = (int)item_get(it, "kind", 0) % K_NKINDS; t->thr = (int)item_get(it, "thr", 0) % PW->n;
	t->evfl = (uint16_t)item_get(it, "evfl", 0); t->tflags = (uint32_t)item_get(it, "flags", 0) & TP_TASK_F_CB_AFTER_EVERY_READ;
	t->timeout_ms = (uint64_t)item_get(it, "timeout", 0); t->cbseed = (unsigned)item_get(it, "cbs", 1);
	t->fd = t->peer = t->lfd = -1;
	tpt = PW->thr[t->thr];
	buf_setup(t, it);
	t->last_arm = sim_now(); t->started_at = sim_now();
	switch (t->kind) {
	case K_CONNEX: {
		int na = 1 + (int)item_get(it, "na", 0) % 3;
		memset(&t->prms, 0, sizeof(t->prms));
		for (int i = 0; i < na; i++) {
			struct sockaddr_in *sin = (struct sockaddr_in *)(void *)&t->addrs[i];
			char key[8];
			memset(sin, 0, sizeof(*sin));
			sin->sin_family = AF_INET; sin->sin_port = htons((uint16_t)(7000 + slot * 10 + i)); sin->sin_addr.s_addr = htonl(0x7f000001u);
			snprintf(key, sizeof(key), "m%d", i); t->ep_mode[i] = 1 + (int)item_get(it, key, 0) % 5;
			snprintf(key, sizeof(key), "d%d", i); t->ep_delay_ns[i] = (uint64_t)item_get(it, key, 0) * 1000ull;
			sim_net_endpoint(7000 + slot * 10 + i, t->ep_mode[i], t->ep_delay_ns[i]);
		}
		t->prms.addrs = t->addrs; t->prms.addrs_count = (size_t)na;
		t->prms.retry_delay = (uint64_t)item_get(it, "retry", 0);
		t->prms.max_tries = (uint64_t)item_get(it, "tries", 1);
		t->prms.time_limit = (uint64_t)item_get(it, "tlimit", 0);
		t->prms.flags = (uint32_t)item_get(it, "cflags", 0) & 3u;
		sim_on_connect_hook = connex_on_connect;
		t->tflags = (uint32_t)item_get(it, "flags", 0) & TP_TASK_F_CB_AFTER_EVERY_READ;
		t->state = ST_ARMED;
		t->started_at = sim_now();
		{
			int bad = ((t->prms.flags & TP_TASK_CONNECT_F_INITIAL_DELAY) && !t->prms.retry_delay) ||
			    (t->prms.time_limit && (!t->timeout_ms || t->timeout_ms >= t->prms.time_limit || t->prms.retry_delay >= t->prms.time_limit));
			rc = tp_task_connect_ex_create(tpt, t->tflags, t->timeout_ms, &t->prms, connex_cb, t, &t->task);
			t->cx_created = 1;
			sim_log("task %d connect_ex na=%d timeout=%llu retry=%llu tries=%llu tlimit=%llu cflags=%x -> %d", slot, na, (unsigned long long)t->timeout_ms, (unsigned long long)t->prms.retry_delay,
			    (unsigned long long)t->prms.max_tries, (unsigned long long)t->prms.time_limit, t->prms.flags, rc);
			if (bad) {
				if (rc != EINVAL) sim_violation("io-connex-result", "task %d: malformed connect_ex parameters were not refused with EINVAL (rc %d)", slot, rc);
				t->state = ST_NONE; sim_probe("c16.connex_malformed_refused");
				return;
			}
			if (0 != rc) {
				/* creation may fail right away when nothing can be tried: the final failure must then have been told */
				if (rc == -1 || t->cx_final_fail || t->cx_fail_reports || t->cx_total_attempts) { t->state = ST_DEAD; t->task = NULL; sim_probe("c16.connex_failed_at_create"); sim_mark_interesting(); return; }
				sim_violation("io-start-failed", "task %d: tp_task_connect_ex_create failed with %d", slot, rc);
				return;
			}
		}
		sim_mark_interesting();
		return;
	}
	case K_RECV: case K_SEND: case K_CONNECT: case K_NOTIFY:
		if (0 != socketpair(AF_UNIX, SOCK_STREAM | SOCK_NONBLOCK | SOCK_CLOEXEC, 0, sv)) { sim_violation("sim-limit", "socketpair failed"); return; }
		break;
	case K_DGRAM:
		if (item_get(it, "dgb", 0)) {
			/* unconnected: a bound receiver and two bound senders whose addresses differ in length */
			struct sockaddr_un sa;
			char rname[64];
			int ok = 1, u = g_uniq++;
			t->dg_bound = 1;
			snprintf(rname, sizeof(rname), "/tmp/lcbsim-%d-%d-r", (int)getpid(), u);
			snprintf(t->dg_name[0], sizeof(t->dg_name[0]), "/tmp/lcbsim-%d-%d-a", (int)getpid(), u);
			snprintf(t->dg_name[1], sizeof(t->dg_name[1]), "/tmp/lcbsim-%d-%d-a-much-longer-sender-name", (int)getpid(), u);
			sv[0] = socket(AF_UNIX, SOCK_DGRAM | SOCK_NONBLOCK | SOCK_CLOEXEC, 0);
			sv[1] = socket(AF_UNIX, SOCK_DGRAM | SOCK_NONBLOCK | SOCK_CLOEXEC, 0);
			t->peer2 = socket(AF_UNIX, SOCK_DGRAM | SOCK_NONBLOCK | SOCK_CLOEXEC, 0);
			memset(&sa, 0, sizeof(sa)); sa.sun_family = AF_UNIX;
			snprintf(sa.sun_path, sizeof(sa.sun_path), "%s", rname); unlink(rname);
			ok = ok && sv[0] >= 0 && 0 == bind(sv[0], (struct sockaddr *)&sa, sizeof(sa));
			snprintf(sa.sun_path, sizeof(sa.sun_path), "%s", t->dg_name[0]); unlink(t->dg_name[0]);
			ok = ok && sv[1] >= 0 && 0 == bind(sv[1], (struct sockaddr *)&sa, sizeof(sa));
			snprintf(sa.sun_path, sizeof(sa.sun_path), "%s", t->dg_name[1]); unlink(t->dg_name[1]);
			ok = ok && t->peer2 >= 0 && 0 == bind(t->peer2, (struct sockaddr *)&sa, sizeof(sa));
			snprintf(sa.sun_path, sizeof(sa.sun_path), "%s", rname);
			ok = ok && 0 == connect(sv[1], (struct sockaddr *)&sa, sizeof(sa)) && 0 == connect(t->peer2, (struct sockaddr *)&sa, sizeof(sa));
			unlink(rname); unlink(t->dg_name[0]); unlink(t->dg_name[1]);   /* the names stay bound, the directory entries are not needed */
			if (!ok) { sim_violation("sim-limit", "cannot set up bound datagram sockets"); return; }
			sim_fd_note_harness(t->peer2);
			break;
		}
		if (0 != socketpair(AF_UNIX, SOCK_DGRAM | SOCK_NONBLOCK | SOCK_CLOEXEC, 0, sv)) { sim_violation("sim-limit", "socketpair failed"); return; }
		break;
	case K_ACCEPT: {
		struct sockaddr_un sa;
		memset(&sa, 0, sizeof(sa));
		sa.sun_family = AF_UNIX;
		snprintf(t->path, sizeof(t->path), "lcbsim-%d-%d-%d", (int)getpid(), slot, g_uniq++);
		memcpy(sa.sun_path + 1, t->path, strlen(t->path)); /* abstract address */
		t->lfd = socket(AF_UNIX, SOCK_STREAM | SOCK_NONBLOCK | SOCK_CLOEXEC, 0);
		if (t->lfd < 0 || 0 != bind(t->lfd, (struct sockaddr *)&sa, (socklen_t)(sizeof(sa.sun_family) + 1 + strlen(t->path))) || 0 != listen(t->lfd, 16)) { sim_violation("sim-limit", "cannot create the listening socket"); return; }
		sim_fd_note_harness(t->lfd);
		sv[0] = t->lfd;
		break;
	}
	}
	if (t->kind != K_ACCEPT) { sim_fd_note_harness(sv[0]); sim_fd_note_harness(sv[1]); }
	t->fd = sv[0]; t->peer = sv[1];
	if (t->kind == K_SEND) { int sz = 1024; setsockopt(t->fd, SOL_SOCKET, SO_SNDBUF, &sz, sizeof(sz)); }
	if (t->kind == K_CONNECT && item_get(it, "pending", 0)) {
		/* a connect that has not completed yet: not writable until the peer "answers" (drains) */
		char junk[4096]; int sz = 1024;
		setsockopt(t->fd, SOL_SOCKET, SO_SNDBUF, &sz, sizeof(sz));
		memset(junk, 'j', sizeof(junk));
		while (write(t->fd, junk, sizeof(junk)) > 0) { }
		while (write(t->fd, junk, 1) > 0) { }
		sim_fd_activity();
		sim_probe("c16.connect_pending");
	}
	if (t->kind == K_RECV && item_get(it, "pre", 0)) {
		/* data that is already waiting when the task starts (first I/O without scheduling) */
		size_t n = (size_t)item_get(it, "pre", 0);
		uint8_t tmp[512];
		if (n > sizeof(tmp)) n = sizeof(tmp);
		for (size_t i = 0; i < n; i++) tmp[i] = pay(slot, i);
		if ((ssize_t)n == write(t->peer, tmp, n)) t->peer_sent = n;
		sim_fd_activity();
	}
	t->state = ST_ARMED; /* live from the moment it is installed */
	switch (t->kind) {
	case K_RECV: case K_SEND: {
		uint16_t ev = (t->kind == K_RECV) ? TP_EV_READ : TP_EV_WRITE;
		if (item_get(it, "ext", 0)) {
			/* created and started by a thread that is NOT the task's pool thread (the usual way a main thread hands a
			 * connection to a worker): the task's thread may already be serving it while tp_task_start() is still
			 * returning here. Two steps, so that the callbacks know the task object. */
			sim_probe("c16.started_from_another_thread");
			rc = tp_task_create(tpt, (uintptr_t)t->fd, tp_task_sr_handler, t->tflags, t, &t->task);
			t->ext_in_start = 1;
			if (0 == rc) rc = tp_task_start(t->task, ev, t->evfl, t->timeout_ms, 0, &t->buf, stream_cb);
			t->ext_in_start = 0;
		} else
		if (item_get(it, "sfio", 1)) rc = tp_task_create_start(tpt, (uintptr_t)t->fd, tp_task_sr_handler, t->tflags, ev, t->evfl, t->timeout_ms, 0, &t->buf, stream_cb, t, &t->task);
		else {
			if (item_get(it, "hsw", 0)) {
				/* created for one handler, switched to another before the start (what a server does when it takes a
				 * connection over from its accept stage): I/O events AND the timeout must reach the new handler */
				rc = tp_task_create(tpt, (uintptr_t)t->fd, tp_task_notify_handler, t->tflags, t, &t->task);
				if (0 == rc) { tp_task_tp_cb_func_set(t->task, tp_task_sr_handler); t->hsw_task = 1; sim_probe("c16.handler_switched_before_start"); }
			} else
			rc = tp_task_create(tpt, (uintptr_t)t->fd, tp_task_sr_handler, t->tflags, t, &t->task);
			if (0 == rc) { sim_probe("c16.start_without_scheduling"); t->starting = 1; rc = tp_task_start_ex(0, t->task, ev, t->evfl, t->timeout_ms, 0, &t->buf, stream_cb); t->starting = 0; }
		}
		break;
	}
	case K_DGRAM:
		t->evfl = 0;
		rc = tp_task_pkt_rcvr_create(tpt, (uintptr_t)t->fd, 0, t->timeout_ms, &t->buf, dgram_cb, t, &t->task);
		break;
	case K_NOTIFY:
		t->evfl = 0;
		rc = tp_task_notify_create(tpt, (uintptr_t)t->fd, 0, TP_EV_READ, t->timeout_ms, notify_cb, t, &t->task);
		break;
	case K_ACCEPT:
		t->evfl = 0;
		rc = tp_task_accept_create(tpt, (uintptr_t)t->fd, 0, t->timeout_ms, accept_cb, t, &t->task);
		break;
	case K_CONNECT:
		t->evfl = TP_F_ONESHOT;
		rc = tp_task_connect_create(tpt, (uintptr_t)t->fd, 0, t->timeout_ms, connect_cb, t, &t->task);
		break;
	}
	sim_log("task %d kind=%d thr=%d evfl=%x flags=%x timeout=%llu off=%zu tr=%zu size=%zu -> %d", slot, t->kind, t->thr, t->evfl, t->tflags, (unsigned long long)t->timeout_ms, t->init_off, t->init_tr, t->buf.size, rc);
	if (0 != rc) { if (t->state != ST_DEAD) t->state = ST_NONE; sim_violation("io-start-failed", "task %d (kind %d): start failed with %d without an injected fault", slot, t->kind, rc); return; }
	sim_mark_interesting();
}

static void op_peer(const item_t *it, const char *k) {
	int slot = (int)item_get(it, "t", 0) % MAX_TASK;
	tk *t = &T[slot];
	if (t->state == ST_NONE || t->kind == K_CONNEX || (t->peer < 0 && t->kind != K_ACCEPT)) return;
	if (0 == strcmp(k, "psend")) {
		size_t n = (size_t)item_get(it, "n", 1);
		uint8_t tmp[1024];
		if (t->kind == K_RECV || t->kind == K_NOTIFY) {
			if (t->peer_closed) return;
			if (n > sizeof(tmp)) n = sizeof(tmp);
			if (t->peer_sent + n > PAY_MAX) return;
			for (size_t i = 0; i < n; i++) tmp[i] = pay(slot, t->peer_sent + i);
			ssize_t w = write(t->peer, tmp, n);
			if (w > 0) t->peer_sent += (size_t)w;
			sim_fd_activity();
		} else if (t->kind == K_DGRAM) {
			if (t->peer_closed || t->dg_sent >= 64) return;
			if (n > t->init_tr) n = t->init_tr;
			if (n > sizeof(tmp)) n = sizeof(tmp);
			if (n < 1) n = 1;
			for (size_t i = 0; i < n; i++) tmp[i] = pay(slot, (size_t)t->dg_sent * 257u + i);
			{
				int from = t->dg_bound ? (int)(item_get(it, "from", 0) & 1) : 0;
				if ((ssize_t)n == write(from ? t->peer2 : t->peer, tmp, n)) { t->dg_from[t->dg_sent] = (uint8_t)from; t->dg_len[t->dg_sent++] = n; }
			}
			sim_fd_activity();
		} else if (t->kind == K_ACCEPT) {
			struct sockaddr_un sa;
			int c = socket(AF_UNIX, SOCK_STREAM | SOCK_NONBLOCK | SOCK_CLOEXEC, 0);
			if (c < 0) return;
			memset(&sa, 0, sizeof(sa)); sa.sun_family = AF_UNIX; memcpy(sa.sun_path + 1, t->path, strlen(t->path));
			if (0 == connect(c, (struct sockaddr *)&sa, (socklen_t)(sizeof(sa.sun_family) + 1 + strlen(t->path)))) t->conn_made++;
			else { close(c); return; }
			sim_fd_activity();
			if (item_get(it, "steal", 0)) {
				/* another acceptor on the same listening socket (a second process, say) takes the connection: the
				 * task may be woken for nothing - it must go on exactly as before, inactivity timer included */
				int s2;
				sim_sleep_ns((uint64_t)item_get(it, "sns", 0), "peer.steal");
				s2 = accept4(t->lfd, NULL, NULL, SOCK_NONBLOCK | SOCK_CLOEXEC);
				if (s2 >= 0) { close(s2); t->conn_made--; sim_probe("c16.connection_taken_by_another_acceptor"); sim_fd_activity(); }
			}
			close(c);   /* the accepted side sees EOF; the harness only counts */
			sim_fd_activity();
		} else if (t->kind == K_SEND || t->kind == K_CONNECT) {
			/* the peer reads (drains) */
			for (;;) {
				ssize_t rd;
				if (n > sizeof(tmp)) n = sizeof(tmp);
				rd = read(t->peer, tmp, n ? n : 1);
				if (rd <= 0) break;
				if (t->kind == K_SEND) {
					for (ssize_t i = 0; i < rd; i++)
						if (tmp[i] != pay(slot, t->peer_sent + (size_t)i)) { sim_violation("io-data", "send task %d: byte %zu on the wire is wrong or out of order", slot, t->peer_sent + (size_t)i); return; }
					t->peer_sent += (size_t)rd;
					if (t->peer_sent > t->init_tr) { sim_violation("io-data", "send task %d: %zu bytes on the wire, the window has %zu", slot, t->peer_sent, t->init_tr); return; }
				}
				if (!item_get(it, "all", 0)) break;
			}
			sim_fd_activity();
		}
	} else if (0 == strcmp(k, "pclose")) {
		int how = (int)item_get(it, "how", 0);
		if (t->kind == K_ACCEPT || t->peer < 0 || t->peer_closed || t->dg_bound) return;
		if (how == 1 && (t->kind == K_RECV || t->kind == K_NOTIFY)) { shutdown(t->peer, SHUT_WR); t->peer_closed = 1; t->peer_halfclosed = 1; sim_probe("c16.peer_half_close"); }
		else if (how == 2 && t->kind != K_DGRAM) {
			/* reset: close while unread data sits in the peer's receive queue */
			char c = 'r';
			(void)!write(t->fd, &c, 1);
			if (t->kind == K_SEND) { /* whatever the task already sent is unread data too */ }
			close(t->peer); sim_fd_forget(t->peer); t->peer = -1; t->peer_closed = 1; t->peer_reset = 1; sim_probe("c16.peer_reset");
		} else { close(t->peer); sim_fd_forget(t->peer); t->peer = -1; t->peer_closed = 1; sim_probe("c16.peer_close"); }
		sim_fd_activity();
	}
}

/* control calls, always executed on the task's own thread (the statement is about that case) */
static void op_ctl(const item_t *it, const char *k) {
	int slot = (int)item_get(it, "t", 0) % MAX_TASK;
	tk *t = &T[slot];
	int rc;
	if (t->state == ST_NONE || t->state == ST_DEAD || !t->task || t->in_cb) return;
	if (t->kind == K_CONNEX && 0 != strcmp(k, "destroy")) return;
	if (0 == strcmp(k, "enable")) {
		if (t->state != ST_PARKED) return;
		t->expect_silence = 0; t->state = ST_ARMED; t->last_arm = sim_now();
		rc = tp_task_enable(t->task, 1);
		if (0 != rc) sim_violation("io-ctl", "task %d: tp_task_enable(1) failed with %d", slot, rc);
		sim_probe("c16.enable_after_park");
	} else if (0 == strcmp(k, "restart")) {
		if (t->state != ST_STOPPED || t->kind == K_CONNECT) return;
		if ((t->kind == K_RECV || t->kind == K_SEND) && t->buf.transfer_size == 0) return;
		if (t->eof_reported || t->err_reported) return;
		t->expect_silence = 0; t->state = ST_ARMED; t->last_arm = sim_now();
		if (item_get(it, "newstart", 0) && (t->kind == K_RECV || t->kind == K_SEND) && !t->hsw_task) {
			/* not "go on" but a NEW start on the rest of the window (tp_task_start): the accounting begins afresh - what
			 * the stopped transfer had moved without reporting belongs to the past */
			size_t unrep = t->buf.offset - t->last_off;
			t->done += unrep; t->last_off = t->buf.offset;
			sim_probe(unrep ? "c16.new_start_after_partial_transfer" : "c16.new_start_after_stop");
			rc = tp_task_start(t->task, (t->kind == K_RECV) ? TP_EV_READ : TP_EV_WRITE, t->evfl, t->timeout_ms, 0, &t->buf, stream_cb);
			if (0 != rc) sim_violation("io-ctl", "task %d: tp_task_start on a stopped task failed with %d", slot, rc);
			return;
		}
		rc = tp_task_restart(t->task);
		if (0 != rc) sim_violation("io-ctl", "task %d: tp_task_restart failed with %d", slot, rc);
		sim_probe("c16.restart_after_stop");
	} else if (0 == strcmp(k, "stop")) {
		tp_task_stop(t->task);
		if (t->state == ST_ARMED || t->state == ST_PARKED) t->state = ST_STOPPED;
		t->expect_silence = 1;
		sim_probe("c16.stop_from_outside_cb");
	} else if (0 == strcmp(k, "destroy")) {
		tp_task_destroy(t->task);
		t->task = NULL; t->state = ST_DEAD; t->expect_silence = 1;
		sim_probe("c16.destroy_from_outside_cb");
	}
}


/* ------------------------------------------------------------------ file tasks (tp_task_rw_handler: pread / pwrite)
 * Linux epoll refuses regular files, so the read/write variant of a task can only run as "first I/O without
 * scheduling": tp_task_start_ex(0, ...) transfers the window at the task's file offset and calls back. One op does
 * the whole thing on the task's pool thread against a memfd with known contents, with error and short-transfer
 * faults on pread()/pwrite(). */
static struct { int ncb, error; uint32_t eof; size_t transfered, off, used, tr; tp_task_p task; io_buf_p buf; } FI;
static inline uint8_t fpay(size_t i) { return (uint8_t)(i * 131u + (i >> 8) * 17u + 9u); }
static int file_cb(tp_task_p tptask, int error, io_buf_p buf, uint32_t eof, size_t transfered_size, void *udata) {
	(void)udata;
	FI.ncb++; FI.error = error; FI.eof = eof; FI.transfered = transfered_size; FI.task = tptask; FI.buf = buf;
	if (buf) { FI.off = buf->offset; FI.used = buf->used; FI.tr = buf->transfer_size; }
	return TP_TASK_CB_NONE;
}
static void op_fileio(const item_t *it, int opidx) {
	static uint8_t mem[CANARY + BUF_MAX + CANARY], fimg[2048], fnow[2048 + BUF_MAX + 64];
	int wr = (int)item_get(it, "wr", 0), fd, rc, thr = (int)item_get(it, "thr", 0) % PW->n;
	size_t flen = (size_t)item_get(it, "flen", 100) % 2048, foff = (size_t)item_get(it, "foff", 0);
	size_t size = (size_t)item_get(it, "size", 256), off = (size_t)item_get(it, "off", 0), tr = (size_t)item_get(it, "tr", 0), used, expect, avail;
	uint32_t tflags = (uint32_t)item_get(it, "flags", 0);
	io_buf_t buf;
	tp_task_p task = NULL;
	tpt_p tpt = tp_thread_get(PW->tp, (size_t)thr);
	if (size < 8) size = 8; if (size > BUF_MAX) size = BUF_MAX;
	if (off >= size) off = size - 1;
	if (tr == 0 || off + tr > size) tr = size - off;
	fd = memfd_create("c16file", 0);
	if (fd < 0) return;
	sim_fd_note_harness(fd);
	for (size_t i = 0; i < flen; i++) fimg[i] = wr ? 0xEE : fpay(i);
	if (flen && (ssize_t)flen != pwrite(fd, fimg, flen, 0)) { close(fd); sim_fd_forget(fd); return; }
	memset(mem, 0xC3, sizeof(mem)); memset(mem + CANARY, 0x3C, size);
	memset(&buf, 0, sizeof(buf));
	buf.data = mem + CANARY; buf.size = size; buf.offset = off; buf.transfer_size = tr; buf.used = wr ? off + tr : off;
	if (wr) for (size_t i = 0; i < tr; i++) buf.data[off + i] = fpay(1000 + i);
	used = buf.used;
	memset(&FI, 0, sizeof(FI));
	sim_probe(wr ? "c16.file_write_task" : "c16.file_read_task");
	sim_mark_interesting();
	rc = tp_task_create(tpt, (uintptr_t)fd, tp_task_rw_handler, tflags, NULL, &task);
	if (0 != rc) { sim_violation("io-start-failed", "file task: tp_task_create failed with %d", rc); close(fd); sim_fd_forget(fd); return; }
	rc = tp_task_start_ex(0, task, wr ? TP_EV_WRITE : TP_EV_READ, 0, 0, (off_t)foff, &buf, file_cb);
	sim_log("fileio wr=%d flen=%zu foff=%zu size=%zu off=%zu tr=%zu flags=%x -> rc=%d ncb=%d error=%d eof=%x transfered=%zu", wr, flen, foff, size, off, tr, tflags, rc, FI.ncb, FI.error, FI.eof, FI.transfered);
	avail = (foff < flen) ? flen - foff : 0;
	expect = wr ? tr : (tr < avail ? tr : avail);
	do {
		int faulted = sim_fault_fired_op(opidx) - sim_fault_fired_site(wr ? "pwrite.short" : "pread.short");
		if (0 != rc) { sim_violation("io-start-failed", "file task: start without scheduling returned %d (the callback asked for nothing further)", rc); break; }
		if (FI.ncb != 1) { sim_violation("io-callback-count", "file task: %d callbacks for one direct transfer", FI.ncb); break; }
		if (FI.task != task || FI.buf != &buf) { sim_violation("io-bad-arg", "file task: callback received another task/buffer"); break; }
		for (size_t i = 0; i < sizeof(mem); i++) if ((i < CANARY || i >= CANARY + size) && mem[i] != 0xC3) { sim_violation("io-buffer-overrun", "file task: bytes outside the caller's buffer were written"); break; }
		if (sim_violated()) break;
		if (FI.off != off + FI.transfered || FI.tr != tr - FI.transfered || FI.transfered > tr) { sim_violation("io-count", "file task: callback reports %zu transferred byte(s), buffer offset moved %zu -> %zu, remaining %zu of %zu", FI.transfered, off, FI.off, FI.tr, tr); break; }
		if (FI.used != (wr ? used : used + FI.transfered)) { sim_violation("io-cursor", "file task: fill mark %zu, expected %zu", FI.used, wr ? used : used + FI.transfered); break; }
		if ((size_t)tp_task_offset_get(task) != foff + FI.transfered) { sim_violation("io-count", "file task: file offset %lld after %zu byte(s) from offset %zu", (long long)tp_task_offset_get(task), FI.transfered, foff); break; }
		if (!faulted && 0 != FI.error) { sim_violation("io-error", "file task: error %d without an injected fault", FI.error); break; }
		if (faulted && 0 == FI.error) { sim_violation("io-error", "file task: the injected I/O error was not reported"); break; }
		if (!wr) {
			for (size_t i = 0; i < size; i++) {
				uint8_t want = (i >= off && i < off + FI.transfered) ? fpay(foff + i - off) : 0x3C;
				if (buf.data[i] != want) { sim_violation((i >= off && i < off + FI.transfered) ? "io-data" : "io-window-overrun", "file task: buffer byte %zu is %02x, expected %02x (window [%zu,+%zu), %zu read from file offset %zu)", i, buf.data[i], want, off, tr, FI.transfered, foff); break; }
			}
			if (sim_violated()) break;
			if (!faulted) {
				if (tflags & TP_TASK_F_CB_AFTER_EVERY_READ) { if (FI.transfered > expect || (expect && !FI.transfered)) { sim_violation("io-count", "file task: %zu byte(s) read, the file holds %zu from offset %zu", FI.transfered, expect, foff); break; } }
				else if (FI.transfered != expect) { sim_violation("io-count", "file task: %zu byte(s) read, expected %zu (window %zu, file %zu from offset %zu)", FI.transfered, expect, tr, avail, foff); break; }
				if (FI.transfered == expect && expect < tr && !(tflags & TP_TASK_F_CB_AFTER_EVERY_READ) && !(FI.eof & TP_TASK_IOF_F_BUF)) { sim_violation("io-missed-eof", "file task: end of file reached after %zu of %zu byte(s) but not reported", expect, tr); break; }
				if (expect == tr && FI.eof) { sim_violation("io-false-eof", "file task: end of file reported although the whole window was filled"); break; }
			}
		} else {
			size_t nlen = flen > foff + FI.transfered ? flen : (FI.transfered ? foff + FI.transfered : flen);
			struct stat st;
			ssize_t got;
			if (!faulted && FI.transfered != tr) { sim_violation("io-count", "file task: %zu of %zu byte(s) written", FI.transfered, tr); break; }
			if (0 != fstat(fd, &st) || (size_t)st.st_size != nlen) { sim_violation("io-data", "file task: file is %lld byte(s) long after writing %zu at %zu (was %zu)", (long long)st.st_size, FI.transfered, foff, flen); break; }
			got = pread(fd, fnow, nlen, 0);
			if (got != (ssize_t)nlen) break;
			for (size_t i = 0; i < nlen; i++) {
				uint8_t want = (i >= foff && i < foff + FI.transfered) ? fpay(1000 + i - foff) : (i < flen ? 0xEE : 0);
				if (fnow[i] != want) { sim_violation("io-data", "file task: file byte %zu is %02x, expected %02x (%zu written at offset %zu)", i, fnow[i], want, FI.transfered, foff); break; }
			}
		}
	} while (0);
	tp_task_destroy(task);
	close(fd); sim_fd_forget(fd);
}

static void c16_exec(const op_t *op, int opidx) {
	const char *k = op->it.kind;
	if (0 == strcmp(k, "fileio")) op_fileio(&op->it, opidx);
	else if (0 == strcmp(k, "task")) op_task(&op->it);
	else if (0 == strcmp(k, "enable") || 0 == strcmp(k, "restart") || 0 == strcmp(k, "stop") || 0 == strcmp(k, "destroy")) op_ctl(&op->it, k);
}

static void *c16_actor(void *arg) {
	int a = (int)(intptr_t)arg;
	const plan_t *p = W.plan;
	for (int i = 0; i < p->nops && !sim_violated(); i++) {
		const op_t *op = &p->ops[i];
		const char *k = op->it.kind;
		if ((int)item_get(&op->it, "actor", 0) != a) continue;
		sim_set_op(i);
		if (item_get(&op->it, "dly", 0)) sim_sleep_ns((uint64_t)item_get(&op->it, "dly", 0), "actor.delay");
		if (0 == strcmp(k, "psend") || 0 == strcmp(k, "pclose")) op_peer(&op->it, k);
		else if (0 == strcmp(k, "wait")) sim_sleep_ns((uint64_t)item_get(&op->it, "ns", 1000), "actor.wait");
		else {
			int slot = (int)item_get(&op->it, "t", 0) % MAX_TASK, thr;
			thr = (0 == strcmp(k, "task") || 0 == strcmp(k, "fileio")) ? (int)item_get(&op->it, "thr", 0) % PW->n : T[slot].thr;
			if (0 == strcmp(k, "task") && item_get(&op->it, "ext", 0)) c16_exec(op, i);   /* from this (non-pool) thread */
			else
			world_send_carrier(i, 0, thr);
			if (0 == strcmp(k, "task")) sim_wait_idle(20000000ull);
		}
		sim_yield("actor.next");
	}
	return NULL;
}

/* ------------------------------------------------------------------ generator */
static void gen_peer_script(plan_t *p, rng_t *r, int tier, int slot, int kind, int actor, uint64_t timeout_ms, size_t tr) {
	int n = (tier == TIER_QUICK) ? (int)rng_range(r, 1, 9) : (int)rng_range(r, 2, 24);
	for (int i = 0; i < n; i++) {
		op_t *op = plan_add_op(p, "psend");
		long long dly;
		item_set(&op->it, "actor", actor);
		item_set(&op->it, "t", slot);
		/* delays placed well below, just below, at, just above the timeout */
		if (timeout_ms && rng_chance(r, 400)) {
			static const int pm[] = { -2000000, -200000, -1000, 0, 1000, 200000, 2000000, 30000000 };
			dly = (long long)timeout_ms * 1000000ll + pm[rng_below(r, 8)];
			if (dly < 0) dly = 1000;
		} else dly = rng_chance(r, 400) ? 0 : (long long)rng_range(r, 1000, 8000000);
		item_set(&op->it, "dly", dly);
		if (kind == K_SEND || kind == K_CONNECT) { item_set(&op->it, "n", (long long)rng_range(r, 1, 1024)); item_set(&op->it, "all", rng_chance(r, 300)); }
		else if (kind == K_DGRAM) { item_set(&op->it, "n", (long long)rng_range(r, 1, 300)); item_set(&op->it, "from", (long long)rng_below(r, 2)); }
		else if (kind == K_ACCEPT) { item_set(&op->it, "n", 1); if (rng_chance(r, 300)) { item_set(&op->it, "steal", 1); item_set(&op->it, "sns", (long long)rng_below(r, 40000)); } }
		else {
			static const int fr[] = { 1, 1, 2, 3, 7, 16, 64, 100, 255, 256, 257, 1000 };
			long long f = fr[rng_below(r, 12)];
			if (rng_chance(r, 300) && tr > 0) f = (long long)rng_range(r, 1, (int64_t)tr + 3);
			item_set(&op->it, "n", f);
		}
		if (rng_chance(r, 120)) {
			static const int errs[] = { EINTR, EAGAIN, ECONNRESET, ENOBUFS };
			item_t *f = op_add_fault(op, (kind == K_SEND) ? "send" : (kind == K_DGRAM) ? "recvfrom" : (kind == K_ACCEPT) ? "accept4" : "recv");
			if (f) { item_set(f, "nth", 1); item_set(f, "err", errs[rng_below(r, 4)]); item_set(f, "anyop", 1); }
		}
		if ((kind == K_SEND || kind == K_RECV) && rng_chance(r, 150)) {
			/* short transfer: the kernel takes / hands over only part of what is possible */
			item_t *f = op_add_fault(op, (kind == K_SEND) ? "send.short" : "recv.short");
			if (f) { item_set(f, "nth", (long long)rng_range(r, 1, 3)); item_set(f, "err", (long long)rng_range(r, 1, 700)); item_set(f, "count", (long long)rng_range(r, 1, 2)); item_set(f, "anyop", 1); }
		}
	}
	if (kind != K_ACCEPT && rng_chance(r, 550)) {
		op_t *op = plan_add_op(p, "pclose");
		item_set(&op->it, "actor", actor);
		item_set(&op->it, "t", slot);
		item_set(&op->it, "how", (long long)rng_below(r, 3));
		item_set(&op->it, "dly", rng_chance(r, 400) ? 0 : (long long)rng_range(r, 1000, 20000000));
	}
}

static void c16_gen(plan_t *p, rng_t *r, int tier) {
	int n = 1 + (int)rng_below(r, 2), ntasks = 1 + (int)rng_below(r, 2);
	item_set(&p->cfg, "threads", n);
	gen_sched(p, r, tier, 1);
	item_set(&p->sched, "budget", 250000);
	for (int s = 0; s < ntasks; s++) {
		static const int kw[] = { K_RECV, K_RECV, K_RECV, K_RECV, K_SEND, K_SEND, K_DGRAM, K_ACCEPT, K_CONNECT, K_CONNEX, K_CONNEX, K_NOTIFY };
		static const uint16_t efl[] = { 0, 0, TP_F_DISPATCH, TP_F_DISPATCH, TP_F_ONESHOT };
		static const int sizes[] = { 16, 40, 64, 256, 300, 1024, 4096 };
		static const int tmo[] = { 0, 0, 1, 5, 20, 100, 1000 };
		int kind = kw[rng_below(r, 12)];
		size_t size = (size_t)sizes[rng_below(r, 7)], off = rng_chance(r, 400) ? (size_t)rng_below(r, size / 2 + 1) : 0, tr = rng_chance(r, 400) ? (size_t)rng_range(r, 1, (int64_t)(size - off)) : 0;
		uint64_t timeout = (uint64_t)tmo[rng_below(r, 7)];
		op_t *op = plan_add_op(p, "task");
		item_set(&op->it, "actor", 2);
		item_set(&op->it, "t", s);
		item_set(&op->it, "kind", kind);
		item_set(&op->it, "thr", (long long)rng_below(r, (uint64_t)n));
		item_set(&op->it, "evfl", efl[rng_below(r, 5)]);
		item_set(&op->it, "flags", rng_chance(r, 400) ? TP_TASK_F_CB_AFTER_EVERY_READ : 0);
		item_set(&op->it, "timeout", (long long)timeout);
		item_set(&op->it, "size", (long long)size);
		item_set(&op->it, "off", (long long)off);
		item_set(&op->it, "tr", (long long)tr);
		item_set(&op->it, "cbs", (long long)rng_below(r, 1u << 30));
		if (rng_chance(r, 250)) item_set(&op->it, "ugap", 1 + (long long)rng_below(r, 64));
		item_set(&op->it, "sfio", rng_chance(r, 700));
		if (!item_get(&op->it, "sfio", 1) && rng_chance(r, 400)) item_set(&op->it, "hsw", 1);
		if (kind == K_RECV && rng_chance(r, 400)) item_set(&op->it, "pre", (long long)rng_range(r, 1, 400));
		if (kind == K_RECV && rng_chance(r, 150)) {
			/* plain persistent receive task handed over from a non-pool thread, usually with data already waiting */
			item_set(&op->it, "ext", 1); item_set(&op->it, "evfl", 0); item_set(&op->it, "sfio", 1); item_set(&op->it, "hsw", 0);
			if (rng_chance(r, 700)) item_set(&op->it, "pre", (long long)rng_range(r, 1, 400));
		}
		if (kind == K_CONNECT) item_set(&op->it, "pending", rng_chance(r, 700));
		if (kind == K_DGRAM) item_set(&op->it, "dgb", rng_chance(r, 500));
		if (kind == K_CONNEX) {
			static const int tmos[] = { 0, 2, 5, 20, 50 };
			static const int rts[] = { 0, 0, 1, 3, 10 };
			int na = (int)rng_below(r, 3), any_black = 0;
			long long tmo = tmos[rng_below(r, 5)];
			item_set(&op->it, "na", na);
			for (int i = 0; i <= na; i++) {
				char key[8];
				int m = (int)rng_below(r, 5);
				snprintf(key, sizeof(key), "m%d", i); item_set(&op->it, key, m);
				if (m + 1 == SIM_NET_BLACKHOLE) any_black = 1;
				snprintf(key, sizeof(key), "d%d", i); item_set(&op->it, key, (long long)rng_range(r, 1, 30000)); /* us */
			}
			if (any_black && tmo == 0) tmo = 5;
			item_set(&op->it, "timeout", tmo);
			item_set(&op->it, "retry", rts[rng_below(r, 5)]);
			item_set(&op->it, "tries", 1 + (long long)rng_below(r, 3));
			item_set(&op->it, "tlimit", rng_chance(r, 350) ? (long long)rng_range(r, 3, 120) : 0);
			item_set(&op->it, "cflags", (long long)rng_below(r, 4));
			if (rng_chance(r, 100)) item_set(&op->it, "tries", 0); /* unlimited rounds: only with a time limit or an accepting address */
			if (item_get(&op->it, "tries", 1) == 0 && !item_get(&op->it, "tlimit", 0)) { item_set(&op->it, "m0", SIM_NET_ACCEPT - 1); item_set(&op->it, "d0", 100); if (!tmo) item_set(&op->it, "timeout", 5); }
		}
		if (kind != K_CONNEX) gen_peer_script(p, r, tier, s, kind, s, timeout, tr ? tr : size - off);
		else { op_t *w = plan_add_op(p, "wait"); item_set(&w->it, "actor", s); item_set(&w->it, "ns", (long long)rng_range(r, 1000000, 400000000)); }
		/* control calls on the task's thread at scripted times */
		{
			int nc = rng_chance(r, 500) ? 0 : (int)rng_below(r, 4);
			for (int c = 0; c < nc; c++) {
				static const char *ck[] = { "enable", "enable", "restart", "restart", "stop", "destroy" };
				op_t *co = plan_add_op(p, ck[rng_below(r, 6)]);
				item_set(&co->it, "actor", 2);
				item_set(&co->it, "t", s);
				item_set(&co->it, "dly", (long long)rng_range(r, 1000, 30000000));
				item_set(&co->it, "newstart", rng_chance(r, 400));
			}
		}
	}
	if (rng_chance(r, 250)) {
		/* a file task (pread/pwrite variant) on one of the pool threads, while the socket tasks are at work */
		static const int sizes[] = { 16, 40, 64, 256, 300, 1024, 4096 };
		size_t size = (size_t)sizes[rng_below(r, 7)], off = rng_chance(r, 500) ? (size_t)rng_below(r, size / 2 + 1) : 0, tr = rng_chance(r, 500) ? (size_t)rng_range(r, 1, (int64_t)(size - off)) : 0;
		size_t flen = rng_chance(r, 100) ? 0 : (size_t)rng_range(r, 1, 2047);
		int wr = rng_chance(r, 400);
		op_t *op = plan_add_op(p, "fileio");
		item_set(&op->it, "actor", 2);
		item_set(&op->it, "thr", (long long)rng_below(r, (uint64_t)n));
		item_set(&op->it, "dly", (long long)rng_range(r, 0, 20000000));
		item_set(&op->it, "wr", wr);
		item_set(&op->it, "flen", (long long)flen);
		item_set(&op->it, "foff", (long long)(rng_chance(r, 300) ? 0 : rng_below(r, flen + 40)));
		item_set(&op->it, "size", (long long)size);
		item_set(&op->it, "off", (long long)off);
		item_set(&op->it, "tr", (long long)tr);
		item_set(&op->it, "flags", (!wr && rng_chance(r, 300)) ? TP_TASK_F_CB_AFTER_EVERY_READ : 0);
		if (rng_chance(r, 150)) {
			item_t *f = op_add_fault(op, wr ? "pwrite" : "pread");
			if (f) { item_set(f, "nth", (long long)rng_range(r, 1, 2)); item_set(f, "err", rng_chance(r, 500) ? EIO : ENOSPC); }
		}
		if (rng_chance(r, 400)) {
			item_t *f = op_add_fault(op, wr ? "pwrite.short" : "pread.short");
			if (f) { item_set(f, "nth", (long long)rng_range(r, 1, 2)); item_set(f, "err", (long long)rng_range(r, 1, 700)); item_set(f, "count", (long long)rng_range(r, 1, 3)); }
		}
	}
}

/* ------------------------------------------------------------------ run */
static void c16_pre(const plan_t *p) {
	world_reset(p);
	W.msg_oracle = 0;
	sim_knobs.pipe_size = 65536;
	world_op_exec = c16_exec;
	memset(T, 0, sizeof(T));
	g_enobufs_cb = 0;
	PW = &W.pool[0];
}

static void *c16_root(void *arg) {
	const plan_t *p = arg;
	int n = (int)item_get(&p->cfg, "threads", 1), ids[3];
	if (n < 1) n = 1; if (n > 4) n = 4;
	sim_set_op(-2);
	if (0 != world_create_pool(0, n, 0, 1)) { sim_violation("setup-failed", "tp_create failed in a fault-free setup"); return NULL; }
	world_start_threads(0, 0);
	world_wait_threads_running(0);
	ids[2] = sim_spawn(c16_actor, (void *)(intptr_t)2, "controller");
	sim_join_fiber(ids[2]); /* tasks exist before their peers start talking (creation order is part of the plan) */
	ids[0] = sim_spawn(c16_actor, (void *)(intptr_t)0, "peer0");
	ids[1] = sim_spawn(c16_actor, (void *)(intptr_t)1, "peer1");
	sim_join_fiber(ids[0]); sim_join_fiber(ids[1]);
	if (sim_violated()) return NULL;
	sim_fair_finish();
	/* let timeouts that are due fire and everything drain */
	{
		uint64_t mx = 0;
		for (int s = 0; s < MAX_TASK; s++) if (T[s].state != ST_NONE && T[s].timeout_ms > mx) mx = T[s].timeout_ms;
		for (int s = 0; s < MAX_TASK; s++) if (T[s].state != ST_NONE && T[s].kind == K_CONNEX) {
			uint64_t w = (T[s].timeout_ms + T[s].prms.retry_delay + 40) * 12 + T[s].prms.time_limit;
			if (w > mx) mx = w;
		}
		sim_wait_idle(mx * 4000000ull + 20000000ull);
	}
	if (sim_faults_fired() > 0) for (int s = 0; s < MAX_TASK; s++) T[s].faults_seen = 1;
	for (int s = 0; s < MAX_TASK && !sim_violated(); s++) {
		tk *t = &T[s];
		if (t->state == ST_NONE) continue;
		check_canaries(t);
		if (sim_violated()) break;
		if (t->kind == K_CONNEX) {
			/* termination: with finite tries or a time limit (or an accepting address) the final word must have been said */
			int finite = t->prms.max_tries != 0 || t->prms.time_limit != 0;
			if (t->state == ST_ARMED && finite && !t->cx_success && !t->cx_final_fail) {
				sim_violation("io-connex-hang", "task %d: connect_ex (tries %llu, time limit %llu ms, timeout %llu ms, retry %llu ms, flags %x) reported neither success nor final failure by quiescence (%d attempts)", s,
				    (unsigned long long)t->prms.max_tries, (unsigned long long)t->prms.time_limit, (unsigned long long)t->timeout_ms, (unsigned long long)t->prms.retry_delay, t->prms.flags, t->cx_total_attempts);
				break;
			}
			continue;
		}
		if (t->state != ST_ARMED) continue;
		/* liveness: an armed task must have been served */
		if (t->kind == K_RECV && !(t->tflags & TP_TASK_F_CB_AFTER_EVERY_READ)) {
			/* accumulate mode: the callback is told when the window is complete (or at EOF / error / timeout);
			 * until then the bytes must at least have been moved into the window */
			size_t moved = t->done + (t->buf.offset - t->last_off);
			size_t want = t->peer_sent < t->init_tr ? t->peer_sent : t->init_tr;
			if (moved < want && !t->faults_seen) {
				sim_violation("io-undelivered", "task %d (evfl %x, accumulate mode): %zu byte(s) arrived but only %zu were moved into the window (%zu free) although the task is armed", s, t->evfl, t->peer_sent, moved, t->buf.transfer_size);
				break;
			}
			for (size_t i = t->done; i < moved; i++) if (t->buf.data[t->init_off + i] != pay(s, i)) { sim_violation("io-data", "task %d: byte %zu of the stream arrived wrong in the window", s, i); break; }
			if (sim_violated()) break;
		} else
		if (t->kind == K_RECV && t->done < t->peer_sent && t->buf.transfer_size > 0 && !t->faults_seen) {
			sim_violation("io-undelivered", "task %d (evfl %x flags %x timeout %llu ms): %zu byte(s) arrived and %zu byte(s) of window are free, but the callback was only told about %zu although the task is armed", s, t->evfl, t->tflags,
			    (unsigned long long)t->timeout_ms, t->peer_sent, t->buf.transfer_size, t->done);
			break;
		}
		if (t->kind == K_SEND && !t->faults_seen && !t->peer_closed) {
			/* the peer has read every byte that was put on the wire, so the socket is writable: an armed send task
			 * with bytes left in its window must have gone on (short sends are no excuse) */
			size_t sent = t->done + (t->buf.offset - t->last_off);
			if (sent < t->init_tr && t->peer_sent == sent) {
				sim_violation("io-unsent", "task %d (evfl %x flags %x timeout %llu ms): armed send task emitted %zu of %zu byte(s), the peer has read all of them, the socket is writable, and nothing more happens", s, t->evfl, t->tflags,
				    (unsigned long long)t->timeout_ms, sent, t->init_tr);
				break;
			}
		}
		if (t->kind == K_RECV && t->peer_closed && !t->eof_reported && !t->err_reported && t->buf.transfer_size > 0 && !t->faults_seen) {
			sim_violation("io-eof-missed", "task %d (evfl %x): the peer closed but neither end of stream nor an error was reported to the armed task", s, t->evfl);
			break;
		}
		if (t->kind == K_NOTIFY && t->done < t->peer_sent && !t->peer_reset) {
			sim_violation("io-undelivered", "task %d: %zu byte(s) are waiting on the descriptor of an armed read notifier (timeout %llu ms) but it was not notified (it has read %zu)", s, t->peer_sent - t->done, (unsigned long long)t->timeout_ms, t->done);
			break;
		}
		if (t->kind == K_NOTIFY && t->peer_closed && !t->eof_reported && !t->err_reported) {
			sim_violation("io-eof-missed", "task %d: the peer closed but the armed read notifier was told neither end of stream nor an error", s);
			break;
		}
		if (t->kind == K_DGRAM && t->dg_recv < t->dg_sent && !t->faults_seen) { sim_violation("io-undelivered", "task %d: %d datagram(s) sent, %d delivered to the armed receiver", s, t->dg_sent, t->dg_recv); break; }
		if (t->kind == K_ACCEPT && t->conn_accepted < t->conn_made && !t->faults_seen) { sim_violation("io-undelivered", "task %d: %d connection(s) made, %d accepted by the armed task", s, t->conn_made, t->conn_accepted); break; }
		if (t->timeout_ms && t->timeouts == 0 && t->kind != K_CONNECT && sim_now() > t->last_arm + t->timeout_ms * 3000000ull + 10000000ull && !t->peer_closed) {
			sim_violation("io-timeout-missed", "task %d: armed with a %llu ms timeout, idle since %llu ns, now %llu ns, but no timeout was reported", s, (unsigned long long)t->timeout_ms, (unsigned long long)t->last_arm, (unsigned long long)sim_now());
			break;
		}
	}
	/* a transfer call that failed with a real error (not "try again") is reported to the callback, every time */
	if (!sim_violated()) {
		int inj = sim_fault_fired_err("recv", ENOBUFS) + sim_fault_fired_err("send", ENOBUFS) + sim_fault_fired_err("recvfrom", ENOBUFS) + sim_fault_fired_err("accept4", ENOBUFS);
		if (g_enobufs_cb < inj) sim_violation("io-error-swallowed", "%d transfer call(s) failed with ENOBUFS (injected) but only %d callback(s) were told that error", inj, g_enobufs_cb);
		else if (inj) sim_probe("c16.hard_error_reported");
	}
	/* send side: what reached the wire equals the window prefix that the callbacks were told about (checked in the peer) */
	/* destroy what is left on the owning thread is not needed: sim_end tears everything down */
	W.teardown = 1;
	return NULL;
}

const harness_t h_c16 = { "C16", c16_gen, c16_pre, c16_root, NULL };
