/* C17: the INI store behaves like an ordered map and survives a text round trip.
 *
 * No threads, no clock: the "system" is one store, the schedule is the operation history, the injected fault is
 * the allocator (separate configuration).  Decided by refinement against an executable reference model that is
 * checked after every operation. */
#define _GNU_SOURCE 1
#include <stdio.h>
#include <stdlib.h>
#include <string.h>
#include <strings.h>
#include <errno.h>
#include <sys/types.h>
#include "h.h"
#include "utils/ini.h"

enum { LT_EMPTY = 0, LT_INVALID, LT_COMMENT, LT_SECTION, LT_VALUE };
#define ML_MAX   700
#define ML_DATA  2800

typedef struct mline {
	int      type;
	int      len;
	int      name_off, name_len, val_off, val_len;
	uint64_t mtime;       /* op counter of the last write (parse or set) */
	uint8_t  data[ML_DATA];
} mline;

static mline *M;          /* model */
static int    MN;
static uint64_t g_optime;
static ini_p  g_ini;
static int    g_faulty;

static const char *SECTS[] = { "s", "S", "main", "Main", "net", "a b", "sec]x" };
/* "v[1]"/"v{1}", "t^x"/"t~x", "u_v"/"u\x7fv": pairs that differ exactly in bit 0x20 like 'A'/'a' do, but are NOT letters */
static const char *NAMES[] = { "a", "A", "b", "key", "KEY", "Key", "port", "port_range", "PORT", "x", "port_range_max", "v[1]", "v{1}", "t^x", "t~x", "k=" };
#define NSECT 7
#define NNAME 15   /* "k=" is only used inside parsed text (name containing '=' cannot exist) */

/* ------------------------------------------------------------------ model */
static void ml_classify(mline *l) {
	l->name_off = l->name_len = l->val_off = l->val_len = 0;
	if (l->len == 0) { l->type = LT_EMPTY; return; }
	if (l->data[0] == ';' || l->data[0] == '#') { l->type = LT_COMMENT; return; }
	if (l->data[0] == '[') {
		int p = -1;
		for (int i = l->len - 1; i >= 0; i--) if (l->data[i] == ']') { p = i; break; }
		if (p < 0) { l->type = LT_INVALID; return; }
		l->type = LT_SECTION; l->name_off = 1; l->name_len = p - 1;
		return;
	}
	for (int i = 0; i < l->len; i++) if (l->data[i] == '=') {
		l->type = LT_VALUE; l->name_off = 0; l->name_len = i; l->val_off = i + 1; l->val_len = l->len - i - 1;
		return;
	}
	l->type = LT_INVALID;
}
static int m_insert(int at, const uint8_t *data, int len) {
	if (MN >= ML_MAX || len > ML_DATA) return -1;
	memmove(&M[at + 1], &M[at], sizeof(mline) * (size_t)(MN - at));
	memset(&M[at], 0, sizeof(mline));
	memcpy(M[at].data, data, (size_t)len);
	M[at].len = len;
	M[at].mtime = g_optime;
	ml_classify(&M[at]);
	MN++;
	return 0;
}
static int eq_name(const mline *l, const char *s, size_t n, int icase) {
	if ((size_t)l->name_len != n) return 0;
	return icase ? 0 == strncasecmp((const char *)l->data + l->name_off, s, n) : 0 == memcmp(l->data + l->name_off, s, n);
}
/* the line the code's own search order picks: first matching section, first matching value inside its block */
static int m_find_first(const char *sect, const char *name, int icase, int *sect_idx) {
	size_t sl = strlen(sect), nl = strlen(name);
	for (int i = 0; i < MN; i++) {
		if (M[i].type != LT_SECTION || !eq_name(&M[i], sect, sl, icase)) continue;
		if (sect_idx) *sect_idx = i;
		for (int j = i + 1; j < MN && M[j].type != LT_SECTION; j++)
			if (M[j].type == LT_VALUE && eq_name(&M[j], name, nl, icase)) return j;
		return -1;
	}
	if (sect_idx) *sect_idx = -1;
	return -1;
}
/* statement semantics: the value most recently parsed or set among all lines that match */
static int m_find_latest(const char *sect, const char *name, int icase, int *ncand, int *nblocks) {
	size_t sl = strlen(sect), nl = strlen(name);
	int best = -1;
	*ncand = 0; *nblocks = 0;
	for (int i = 0; i < MN; i++) {
		if (M[i].type != LT_SECTION || !eq_name(&M[i], sect, sl, icase)) continue;
		(*nblocks)++;
		for (int j = i + 1; j < MN && M[j].type != LT_SECTION; j++) {
			if (M[j].type != LT_VALUE || !eq_name(&M[j], name, nl, icase)) continue;
			(*ncand)++;
			if (best < 0 || M[j].mtime >= M[best].mtime) best = j;
		}
	}
	return best;
}
static void m_set(const char *sect, const char *name, const uint8_t *val, int vlen) {
	int si = -1, vi = m_find_first(sect, name, 0, &si);
	uint8_t buf[ML_DATA];
	int nl = (int)strlen(name), n;
	if (si < 0) {
		n = snprintf((char *)buf, sizeof(buf), "[%s]", sect);
		m_insert(MN, buf, n);
		si = MN - 1;
	}
	memcpy(buf, name, (size_t)nl); buf[nl] = '='; memcpy(buf + nl + 1, val, (size_t)vlen);
	n = nl + 1 + vlen;
	if (vi >= 0) {
		memcpy(M[vi].data, buf, (size_t)n); M[vi].len = n; M[vi].mtime = g_optime; ml_classify(&M[vi]);
		return;
	}
	/* end of the section block, before trailing empty lines */
	{
		int at = si + 1;
		while (at < MN && M[at].type != LT_SECTION) at++;
		while (at > 0 && M[at - 1].type == LT_EMPTY) at--;
		m_insert(at, buf, n);
	}
}
static size_t m_text(uint8_t *out, size_t cap) {
	size_t off = 0;
	for (int i = 0; i < MN; i++) {
		if (off + (size_t)M[i].len + 2 > cap) return (size_t)-1;
		memcpy(out + off, M[i].data, (size_t)M[i].len); off += (size_t)M[i].len;
		out[off++] = '\r'; out[off++] = '\n';
	}
	return off;
}
static void m_parse_text(const uint8_t *t, size_t n) {
	/* LF separated, one optional CR before the LF belongs to the line end; a final line may lack the terminator */
	size_t p = 0;
	while (p < n) {
		size_t e = p;
		while (e < n && t[e] != '\n') e++;
		size_t le = e;
		if (e < n && le > p && t[le - 1] == '\r') le--;
		m_insert(MN, t + p, (int)(le - p));
		p = (e < n) ? e + 1 : e;
	}
}

/* ------------------------------------------------------------------ value / text generation from plan integers */
static int gen_value(uint8_t *out, int len, unsigned seed) {
	static const char alpha[] = "abcXYZ019 =[];#._-/:";
	unsigned x = seed * 2654435761u + 12345u;
	if (len > 2700) len = 2700;
	for (int i = 0; i < len; i++) { x = x * 1103515245u + 12345u; out[i] = (uint8_t)alpha[(x >> 16) % (sizeof(alpha) - 1)]; }
	/* a value may end in a carriage return of its own (only the CR of the line end belongs to the line end) */
	if (len > 0 && (seed % 11u) == 3u) { out[len - 1] = '\r'; if (len > 1 && (seed % 22u) == 3u) out[len - 2] = '\r'; }
	return len;
}
static size_t gen_text(uint8_t *out, size_t cap, unsigned seed, int nlines, int dups, int crlf_mode, int final_nl) {
	unsigned x = seed * 2246822519u + 7u;
	size_t off = 0;
	int cur_sect = -1;
	unsigned used_sects = 0, used_names = 0;
	for (int i = 0; i < nlines && off + 320 < cap; i++) {
		unsigned k;
		x = x * 1103515245u + 12345u; k = (x >> 16) % 100;
		if (k < 18 || (i == 0 && k < 70)) {
			int s;
			x = x * 1103515245u + 12345u;
			s = (int)((x >> 16) % NSECT);
			if (!dups) {
				int tries = 0;
				while ((used_sects & (1u << s)) && tries++ < NSECT) s = (s + 1) % NSECT;
				if (used_sects & (1u << s)) continue; /* every section name is taken: no more section lines */
				used_sects |= 1u << s; used_names = 0;
			}
			cur_sect = s;
			off += (size_t)sprintf((char *)out + off, "[%s]", SECTS[s]);
			if (k % 5 == 0) off += (size_t)sprintf((char *)out + off, " ; trailing"); /* text after ']' stays in the line */
		} else if (k < 70) {
			int nm, vl;
			x = x * 1103515245u + 12345u; nm = (int)((x >> 16) % (dups ? 4 : (NNAME + 1)));
			if (!dups) {
				int tries = 0;
				if (nm == NNAME && (used_names & (1u << NNAME))) nm = 0;
				while ((used_names & (1u << nm)) && tries++ < NNAME + 1) nm = (nm + 1) % (NNAME + 1);
				if (used_names & (1u << nm)) continue;
				used_names |= 1u << nm;
			}
			x = x * 1103515245u + 12345u; vl = (int)((x >> 16) % 40);
			off += (size_t)sprintf((char *)out + off, "%s=", NAMES[nm]);
			off += (size_t)gen_value(out + off, vl, x);
		} else if (k < 80) {
			off += (size_t)sprintf((char *)out + off, "%c comment %u", (k & 1) ? ';' : '#', x & 0xff);
		} else if (k < 90) {
			/* empty line */
		} else if (k < 95) {
			off += (size_t)sprintf((char *)out + off, "just words %u", x & 0xff); /* invalid: no '=' */
		} else {
			off += (size_t)sprintf((char *)out + off, "[broken section");         /* invalid: no ']' */
		}
		if (i == nlines - 1 && !final_nl) break;
		x = x * 1103515245u + 12345u;
		if (crlf_mode == 1 || (crlf_mode == 2 && ((x >> 16) & 1))) out[off++] = '\r';
		out[off++] = '\n';
	}
	return off;
}

/* ------------------------------------------------------------------ oracle: compare the whole store with the model */
static uint8_t g_buf1[ML_MAX * 64 + 4096 + 65536], g_buf2[ML_MAX * 64 + 4096 + 65536];

static void check_lookup(const char *sect, const char *name, int icase) {
	const uint8_t *v = NULL; size_t vs = 0;
	int nc = 0, nb = 0, rc, exp;
	rc = icase ? ini_vali_get(g_ini, (const uint8_t *)sect, strlen(sect), (const uint8_t *)name, strlen(name), &v, &vs)
	           : ini_val_get(g_ini, (const uint8_t *)sect, strlen(sect), (const uint8_t *)name, strlen(name), &v, &vs);
	exp = m_find_latest(sect, name, icase, &nc, &nb);
	if (exp < 0) {
		if (rc == 0) sim_violation("ini-lookup-mismatch", "%s lookup of [%s] %s returned a value (\"%.*s\") although no such entry exists", icase ? "case-insensitive" : "case-sensitive", sect, name, (int)(vs > 40 ? 40 : vs), (const char *)v);
		return;
	}
	if (rc == 0 && (int)vs == M[exp].val_len && 0 == memcmp(v, M[exp].data + M[exp].val_off, vs)) return;
	if (icase && rc == 0) {
		/* several spellings may match case-insensitively: the latest value of any one exact spelling is acceptable */
		size_t sl = strlen(sect), nl = strlen(name);
		for (int i = 0; i < MN; i++) {
			if (M[i].type != LT_SECTION || !eq_name(&M[i], sect, sl, 1)) continue;
			for (int j = i + 1; j < MN && M[j].type != LT_SECTION; j++) {
				char sn[80], nn[80]; int c2, b2, l2;
				if (M[j].type != LT_VALUE || !eq_name(&M[j], name, nl, 1)) continue;
				snprintf(sn, sizeof(sn), "%.*s", M[i].name_len, M[i].data + M[i].name_off);
				snprintf(nn, sizeof(nn), "%.*s", M[j].name_len, M[j].data + M[j].name_off);
				l2 = m_find_latest(sn, nn, 0, &c2, &b2);
				if (l2 >= 0 && (int)vs == M[l2].val_len && 0 == memcmp(v, M[l2].data + M[l2].val_off, vs)) return;
			}
		}
	}
	if (nc >= 2 || nb >= 2) {
		/* known finding KF-C17-1: duplicates resolve to the FIRST occurrence in file order */
		int first = m_find_first(sect, name, icase, NULL);
		int first_ok = (first < 0) ? (rc != 0) : (rc == 0 && (int)vs == M[first].val_len && 0 == memcmp(v, M[first].data + M[first].val_off, vs));
		if (first_ok) {
			sim_violation_deferred("ini-dup-first-wins", "[%s] %s occurs %d time(s) in %d section block(s) of that name: lookup returned the first occurrence%s instead of the value most recently parsed or set", sect, name, nc, nb, first < 0 ? " (not found)" : "");
			return;
		}
	}
	sim_violation("ini-lookup-mismatch", "%s lookup of [%s] %s: expected \"%.*s\" (%d bytes), got rc=%d \"%.*s\" (%zu bytes)", icase ? "case-insensitive" : "case-sensitive",
	    sect, name, M[exp].val_len > 40 ? 40 : M[exp].val_len, (const char *)M[exp].data + M[exp].val_off, M[exp].val_len, rc, (int)(vs > 40 ? 40 : vs), v ? (const char *)v : "", vs);
}

static void check_all(const char *after) {
	size_t need = 0, got = 0, mt;
	int rc;
	/* serialisation: size == bytes written == model text */
	rc = ini_buf_calc_size(g_ini, &need);
	if (rc != 0) { sim_violation("ini-size", "ini_buf_calc_size failed with %d after %s", rc, after); return; }
	mt = m_text(g_buf2, sizeof(g_buf2));
	if (mt == (size_t)-1) return;
	if (need != mt) { sim_violation("ini-size", "after %s: ini_buf_calc_size says %zu bytes, the model text has %zu", after, need, mt); return; }
	if (need > 0) {
		memset(g_buf1, 0xA5, need + 64);
		rc = ini_buf_gen(g_ini, g_buf1, need, &got);
		if (rc != 0 || got != need) { sim_violation("ini-gen", "after %s: ini_buf_gen into a buffer of exactly the calculated size (%zu) returned %d and wrote %zu", after, need, rc, got); return; }
		for (int i = 0; i < 64; i++) if (g_buf1[need + (size_t)i] != 0xA5) { sim_violation("ini-gen-overflow", "ini_buf_gen wrote past the end of its buffer"); return; }
		if (0 != memcmp(g_buf1, g_buf2, need)) {
			size_t d = 0; while (d < need && g_buf1[d] == g_buf2[d]) d++;
			sim_violation("ini-text-mismatch", "after %s: generated text differs from the model at byte %zu of %zu", after, d, need);
			return;
		}
	}
	/* enumeration in file order */
	{
		size_t so = 0; const uint8_t *sn; size_t sns;
		int mi = 0;
		{
			/* the entries before the first section header: reachable with the "no section" offset */
			size_t vo = 0; const uint8_t *vn, *vv; size_t vns, vvs;
			int mj = 0, guard = 0;
			while (0 == ini_sect_val_enum(g_ini, INI_OFFSET_INVALID, &vo, &vn, &vns, &vv, &vvs)) {
				while (mj < MN && M[mj].type != LT_SECTION && M[mj].type != LT_VALUE) mj++;
				if (mj >= MN || M[mj].type != LT_VALUE || guard++ > ML_MAX) { sim_violation("ini-enum", "after %s: enumeration of the entries before the first section yields an entry the model does not have there (\"%.*s\")", after, (int)vns, (const char *)vn); return; }
				if ((size_t)M[mj].name_len != vns || 0 != memcmp(vn, M[mj].data + M[mj].name_off, vns) ||
				    (size_t)M[mj].val_len != vvs || 0 != memcmp(vv, M[mj].data + M[mj].val_off, vvs)) {
					sim_violation("ini-enum", "after %s: enumeration of the entries before the first section out of file order or wrong content at \"%.*s\"", after, (int)vns, (const char *)vn);
					return;
				}
				sim_probe("c17.enum_before_first_section");
				mj++; vo++;
			}
			while (mj < MN && M[mj].type != LT_SECTION) { if (M[mj].type == LT_VALUE) { sim_violation("ini-enum", "after %s: enumeration of the entries before the first section stops before \"%.*s\"", after, M[mj].name_len, (const char *)M[mj].data + M[mj].name_off); return; } mj++; }
		}
		while (0 == ini_sect_enum(g_ini, &so, &sn, &sns)) {
			size_t vo = 0; const uint8_t *vn, *vv; size_t vns, vvs;
			while (mi < MN && M[mi].type != LT_SECTION) mi++;
			if (mi >= MN) { sim_violation("ini-enum", "after %s: section enumeration yields more sections than the model has", after); return; }
			if ((size_t)M[mi].name_len != sns || 0 != memcmp(sn, M[mi].data + M[mi].name_off, sns)) { sim_violation("ini-enum", "after %s: section enumeration out of file order (got \"%.*s\")", after, (int)sns, (const char *)sn); return; }
			{
				int mj = mi + 1;
				while (0 == ini_sect_val_enum(g_ini, so, &vo, &vn, &vns, &vv, &vvs)) {
					while (mj < MN && M[mj].type != LT_SECTION && M[mj].type != LT_VALUE) mj++;
					if (mj >= MN || M[mj].type != LT_VALUE) { sim_violation("ini-enum", "after %s: value enumeration of section \"%.*s\" yields an entry the model does not have there (\"%.*s\")", after, (int)sns, (const char *)sn, (int)vns, (const char *)vn); return; }
					if ((size_t)M[mj].name_len != vns || 0 != memcmp(vn, M[mj].data + M[mj].name_off, vns) ||
					    (size_t)M[mj].val_len != vvs || 0 != memcmp(vv, M[mj].data + M[mj].val_off, vvs)) {
						sim_violation("ini-enum", "after %s: value enumeration of section \"%.*s\" out of file order or wrong content at \"%.*s\"", after, (int)sns, (const char *)sn, (int)vns, (const char *)vn);
						return;
					}
					mj++; vo++;
				}
				while (mj < MN && M[mj].type != LT_SECTION) { if (M[mj].type == LT_VALUE) { sim_violation("ini-enum", "after %s: value enumeration of section \"%.*s\" stops before entry \"%.*s\"", after, (int)sns, (const char *)sn, M[mj].name_len, (const char *)M[mj].data + M[mj].name_off); return; } mj++; }
			}
			mi++; so++;
		}
		while (mi < MN) { if (M[mi].type == LT_SECTION) { sim_violation("ini-enum", "after %s: section enumeration misses section \"%.*s\"", after, M[mi].name_len, (const char *)M[mi].data + M[mi].name_off); return; } mi++; }
	}
	/* every (section, name) of the universe, both case modes */
	for (int s = 0; s < NSECT && !sim_violated(); s++)
		for (int n = 0; n < NNAME && !sim_violated(); n++) { check_lookup(SECTS[s], NAMES[n], 0); if (!sim_violated()) check_lookup(SECTS[s], NAMES[n], 1); }
}

static void model_resync_from_store(void) {
	/* after an injected allocation failure: adopt whatever consistent state the store is in (text level) */
	size_t need = 0, got = 0;
	MN = 0;
	if (0 != ini_buf_calc_size(g_ini, &need) || need == 0 || need + 8 > sizeof(g_buf1)) return;
	if (0 != ini_buf_gen(g_ini, g_buf1, need + 8, &got)) return;
	m_parse_text(g_buf1, got);
}

/* ------------------------------------------------------------------ ops */
static void do_op(const op_t *op, int idx) {
	const item_t *it = &op->it;
	const char *k = it->kind;
	char what[64];
	int rc;
	g_optime++;
	sim_set_op(idx);
	snprintf(what, sizeof(what), "op %d (%s)", idx, k);
	if (0 == strcmp(k, "parse")) {
		size_t n = gen_text(g_buf1, 6000, (unsigned)item_get(it, "seed", 1), (int)item_get(it, "lines", 5), (int)item_get(it, "dups", 0), (int)item_get(it, "crlf", 0), (int)item_get(it, "fnl", 1));
		uint8_t *copy = malloc(n + 1);
		if (MN + (int)item_get(it, "lines", 5) + 4 >= ML_MAX) { free(copy); return; }
		memcpy(copy, g_buf1, n);
		rc = ini_buf_parse(g_ini, copy, n);
		if (rc != 0) {
			free(copy);
			if (!g_faulty) { sim_violation("ini-parse", "ini_buf_parse failed with %d without an injected fault", rc); return; }
			sim_probe("c17.op_failed_under_fault"); model_resync_from_store(); return;
		}
		m_parse_text(copy, n);
		free(copy);
		if (item_get(it, "dups", 0)) sim_probe("c17.parse_with_duplicates");
	} else if (0 == strcmp(k, "set") || 0 == strcmp(k, "setg") || 0 == strcmp(k, "seti")) {
		const char *sect = SECTS[item_get(it, "s", 0) % NSECT], *name = NAMES[item_get(it, "n", 0) % NNAME];
		uint8_t val[2800];
		int vl;
		if (MN + 3 >= ML_MAX) return;
		if (0 == strcmp(k, "setg")) {
			/* grow (or shrink) the current value by a small step: the replace-in-place path */
			int cur = m_find_first(sect, name, 0, NULL);
			int base = cur >= 0 ? M[cur].val_len : 0;
			vl = base + (int)item_get(it, "delta", 1);
			if (vl < 0) vl = 0;
			if (vl > 2600) vl = 2600;
			gen_value(val, vl, (unsigned)item_get(it, "seed", 1));
			rc = ini_val_set(g_ini, (const uint8_t *)sect, strlen(sect), (const uint8_t *)name, strlen(name), val, (size_t)vl);
		} else if (0 == strcmp(k, "seti")) {
			long long num = item_get(it, "num", 0);
			if (item_get(it, "uns", 0) == 2) { /* the 64 bits as they are: values up to SIZE_MAX */
				rc = ini_val_set_uint(g_ini, (const uint8_t *)sect, strlen(sect), (const uint8_t *)name, strlen(name), (size_t)(unsigned long long)num); vl = snprintf((char *)val, sizeof(val), "%llu", (unsigned long long)num);
			} else if (item_get(it, "uns", 0)) { if (num < 0) num = -num; rc = ini_val_set_uint(g_ini, (const uint8_t *)sect, strlen(sect), (const uint8_t *)name, 0 /* strlen inside */, (size_t)num); vl = snprintf((char *)val, sizeof(val), "%llu", (unsigned long long)num); }
			else { rc = ini_val_set_int(g_ini, (const uint8_t *)sect, 0, (const uint8_t *)name, strlen(name), (ssize_t)num); vl = snprintf((char *)val, sizeof(val), "%lld", num); }
		} else {
			vl = (int)item_get(it, "len", 3);
			if (vl > 2600) vl = 2600;
			gen_value(val, vl, (unsigned)item_get(it, "seed", 1));
			rc = ini_val_set(g_ini, (const uint8_t *)sect, strlen(sect), (const uint8_t *)name, strlen(name), vl ? val : (const uint8_t *)"", (size_t)vl);
		}
		if (rc != 0) {
			if (!g_faulty) { sim_violation("ini-set", "ini_val_set failed with %d without an injected fault", rc); return; }
			sim_probe("c17.op_failed_under_fault"); model_resync_from_store(); return;
		}
		m_set(sect, name, val, vl);
	} else if (0 == strcmp(k, "gen")) {
		size_t need = 0, got = 777, cap;
		int mode = (int)item_get(it, "mode", 0);
		if (0 != ini_buf_calc_size(g_ini, &need)) return;
		switch (mode % 6) {
		case 0: cap = need; break;
		case 1: cap = need ? need - 1 : 0; break;
		case 2: cap = need + 1; break;
		case 3: cap = 1; break;
		case 4: cap = need ? (size_t)item_get(it, "cap", 7) % need : 0; break;
		default: cap = need / 2; break;
		}
		if (cap == 0 || cap + 128 > sizeof(g_buf1)) return;
		memset(g_buf1, 0x5A, cap + 128);
		rc = ini_buf_gen(g_ini, g_buf1, cap, &got);
		for (int i = 0; i < 128; i++) if (g_buf1[cap + (size_t)i] != 0x5A) { sim_violation("ini-gen-overflow", "ini_buf_gen into a %zu byte buffer (text needs %zu) wrote past its end (offset +%d)", cap, need, i); return; }
		if (cap < need) {
			sim_probe("c17.gen_small_buffer");
			if (rc == 0) { sim_violation("ini-gen", "ini_buf_gen into a %zu byte buffer returned success although the text needs %zu bytes", cap, need); return; }
		} else if (rc != 0 || got != need) { sim_violation("ini-gen", "ini_buf_gen into a %zu byte buffer (need %zu) returned %d, wrote %zu", cap, need, rc, got); return; }
	} else if (0 == strcmp(k, "rt")) {
		/* text round trip: parse(gen(store)) is an equivalent store */
		size_t need = 0, got = 0, n2 = 0, g2 = 0;
		ini_p two = NULL;
		if (0 != ini_buf_calc_size(g_ini, &need) || need == 0 || need + 8 > sizeof(g_buf1)) return;
		if (0 != ini_buf_gen(g_ini, g_buf1, need, &got)) { if (!g_faulty) sim_violation("ini-gen", "ini_buf_gen failed in the round trip"); return; }
		if (0 != ini_create(&two)) { if (!g_faulty) sim_violation("ini-create", "ini_create failed"); return; }
		rc = ini_buf_parse(two, g_buf1, got);
		if (rc == 0 && 0 == ini_buf_calc_size(two, &n2) && n2 + 8 <= sizeof(g_buf2) && 0 == ini_buf_gen(two, g_buf2, n2 ? n2 : 1, &g2)) {
			if (n2 != need || g2 != got || 0 != memcmp(g_buf1, g_buf2, got)) sim_violation("ini-roundtrip", "parsing the generated text and generating again gives a different text (%zu vs %zu bytes)", got, g2);
			else {
				/* same lookups */
				for (int s = 0; s < NSECT && !sim_violated(); s++) for (int n = 0; n < NNAME && !sim_violated(); n++) {
					const uint8_t *v1 = NULL, *v2 = NULL; size_t s1 = 0, s2 = 0;
					int r1 = ini_val_get(g_ini, (const uint8_t *)SECTS[s], 0, (const uint8_t *)NAMES[n], 0, &v1, &s1);
					int r2 = ini_val_get(two, (const uint8_t *)SECTS[s], 0, (const uint8_t *)NAMES[n], 0, &v2, &s2);
					if ((r1 == 0) != (r2 == 0) || (r1 == 0 && (s1 != s2 || 0 != memcmp(v1, v2, s1)))) sim_violation("ini-roundtrip", "after the text round trip [%s] %s resolves differently", SECTS[s], NAMES[n]);
				}
			}
			sim_probe("c17.roundtrip");
		} else if (!g_faulty && rc != 0) sim_violation("ini-parse", "parsing generated text failed with %d", rc);
		ini_destroy(two);
	}
	if (sim_violated()) return;
	{
		uint64_t h = 1469598103934665603ULL;
		for (int i = 0; i < MN; i++) { for (int b = 0; b < M[i].len; b++) { h ^= M[i].data[b]; h *= 1099511628211ULL; } h ^= 0x0a; h *= 1099511628211ULL; }
		sim_hash_u64(h ^ ((uint64_t)idx << 56));
	}
	check_all(what);
}

/* ------------------------------------------------------------------ generator */
static void c17_gen(plan_t *p, rng_t *r, int tier) {
	int nops = (tier == TIER_QUICK) ? (int)rng_range(r, 2, 28) : (int)rng_range(r, 4, 60);
	int faulty = rng_chance(r, 250);
	int biglines = rng_chance(r, 120);
	static const int lens[] = { 0, 1, 5, 14, 15, 16, 17, 30, 31, 32, 33, 47, 48, 49, 64, 100, 200, 250 };
	item_set(&p->cfg, "faulty", faulty);
	item_set(&p->cfg, "inplace", rng_chance(r, 500)); /* allocator front: realloc grows in place inside 16 byte granules / always moves */
	item_set(&p->sched, "policy", POL_RANDOM);
	item_set(&p->sched, "seed", 1);
	item_set(&p->sched, "p", 0);
	item_set(&p->sched, "budget", 400000);
	item_set(&p->sched, "stepns", 0);
	for (int i = 0; i < nops; i++) {
		unsigned k = (unsigned)rng_below(r, 100);
		op_t *op;
		if (k < 16 || (i == 0 && k < 60)) {
			op = plan_add_op(p, "parse");
			item_set(&op->it, "seed", (long long)rng_below(r, 1u << 30));
			item_set(&op->it, "lines", (long long)rng_range(r, 1, (tier == TIER_QUICK) ? 14 : 40));
			item_set(&op->it, "dups", rng_chance(r, 120));
			item_set(&op->it, "crlf", (long long)rng_below(r, 3));
			item_set(&op->it, "fnl", rng_chance(r, 700));
		} else if (k < 46) {
			op = plan_add_op(p, "set");
			item_set(&op->it, "s", (long long)rng_below(r, NSECT));
			item_set(&op->it, "n", (long long)rng_below(r, NNAME));
			item_set(&op->it, "len", lens[rng_below(r, sizeof(lens) / sizeof(lens[0]))]);
			if (biglines && rng_chance(r, 450)) {
				/* kilobyte values on two keys: long, short, long again - with other entries added in between */
				item_set(&op->it, "s", 2); item_set(&op->it, "n", (long long)rng_below(r, 2));
				item_set(&op->it, "len", rng_chance(r, 600) ? (long long)rng_range(r, 1040, 2600) : (long long)rng_range(r, 0, 300));
			}
			item_set(&op->it, "seed", (long long)rng_below(r, 1u << 30));
		} else if (k < 70) {
			/* runs of small in-place growths / shrinks of one key */
			int s = (int)rng_below(r, NSECT), n = (int)rng_below(r, NNAME), reps = 1 + (int)rng_below(r, 6);
			for (int q = 0; q < reps; q++) {
				op = plan_add_op(p, "setg");
				item_set(&op->it, "s", s); item_set(&op->it, "n", n);
				item_set(&op->it, "delta", rng_chance(r, 750) ? (long long)rng_range(r, 1, 15) : -(long long)rng_range(r, 1, 40));
				item_set(&op->it, "seed", (long long)rng_below(r, 1u << 30));
			}
		} else if (k < 78) {
			op = plan_add_op(p, "seti");
			item_set(&op->it, "s", (long long)rng_below(r, NSECT));
			item_set(&op->it, "n", (long long)rng_below(r, NNAME));
			item_set(&op->it, "num", (long long)rng_range(r, -100000, 100000) * (rng_chance(r, 200) ? 1000003 : 1));
			item_set(&op->it, "uns", rng_chance(r, 500));
			if (rng_chance(r, 300)) {
				/* digit-count boundaries of the 64-bit range: 10^k - 1, 10^k, the extremes */
				static const long long edge[] = { 0, 9, 10, 99, 100, 999999999LL, 1000000000LL, 4294967295LL, 4294967296LL, 999999999999999999LL, 1000000000000000000LL,
				    9223372036854775807LL, (-9223372036854775807LL - 1), -1000000000000000000LL, -999999999999999999LL, -9, -10, -1,
				    (long long)10000000000000000000ULL, (long long)9999999999999999999ULL, (long long)18446744073709551615ULL, (long long)9223372036854775808ULL };
				int e = (int)rng_below(r, 22);
				item_set(&op->it, "num", edge[e]);
				item_set(&op->it, "uns", e >= 18 ? 2 : (edge[e] >= 0 && rng_chance(r, 500)) ? 2 : 0);
			}
		} else if (k < 90) {
			op = plan_add_op(p, "gen");
			item_set(&op->it, "mode", (long long)rng_below(r, 6));
			item_set(&op->it, "cap", (long long)rng_below(r, 1u << 20));
		} else {
			op = plan_add_op(p, "rt");
		}
		if (faulty && rng_chance(r, 250) && 0 != strcmp(op->it.kind, "gen")) {
			item_t *f = op_add_fault(op, "alloc");
			if (f) item_set(f, "nth", 1 + (long long)rng_below(r, 4));
		}
	}
}

static void c17_pre(const plan_t *p) {
	static mline *store;
	if (!store) store = calloc(ML_MAX + 1, sizeof(mline));
	M = store; MN = 0;
	g_optime = 0;
	g_ini = NULL;
	g_faulty = (int)item_get(&p->cfg, "faulty", 0);
}

static void *c17_root(void *arg) {
	const plan_t *p = arg;
	sim_set_op(-2);
	if (0 != ini_create(&g_ini)) { sim_violation("ini-create", "ini_create failed"); return NULL; }
	for (int i = 0; i < p->nops && !sim_violated(); i++) do_op(&p->ops[i], i);
	if (sim_violated()) return NULL;
	sim_set_op(-2);
	ini_destroy(g_ini);
	g_ini = NULL;
	if (sim_lib_allocs_live() != 0) sim_violation("ini-leak", "%zu allocation(s) of the store are still live after ini_destroy", sim_lib_allocs_live());
	if (p->nops >= 2) sim_mark_interesting();
	return NULL;
}

const harness_t h_c17 = { "C17", c17_gen, c17_pre, c17_root, NULL };
