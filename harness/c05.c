/* C05: thread-pool messages are delivered exactly once, in order, on the right thread. */
#define _GNU_SOURCE 1
#include <stdio.h>
#include <stdlib.h>
#include <string.h>
#include <errno.h>
#include "pool.h"

/* ------------------------------------------------------------------ generator */
static int pick_dst(rng_t *r, int n, int pvt_permille) {
	if (rng_chance(r, (unsigned)pvt_permille)) return -1;
	return (int)rng_below(r, (uint64_t)n);
}
static uint32_t pick_flags(rng_t *r) {
	static const uint32_t sets[] = { 0, 0, 0, TP_MSG_F_SELF_DIRECT, TP_MSG_F_FORCE, TP_MSG_F_FAIL_DIRECT,
	    TP_MSG_F_SELF_DIRECT | TP_MSG_F_FAIL_DIRECT, TP_MSG_F_FORCE | TP_MSG_F_FAIL_DIRECT, TP_MSG_F__ALL__ };
	return sets[rng_below(r, sizeof(sets) / sizeof(sets[0]))];
}
static void maybe_fault(op_t *op, rng_t *r, int permille, int maxn) {
	static const int errs[] = { EAGAIN, EAGAIN, EPIPE, EBADF };
	if (!rng_chance(r, (unsigned)permille)) return;
	item_t *f = op_add_fault(op, "qwrite");
	if (!f) return;
	item_set(f, "nth", 1 + (long long)rng_below(r, (uint64_t)maxn));
	item_set(f, "err", errs[rng_below(r, 4)]);
}

static void c05_gen(plan_t *p, rng_t *r, int tier) {
	int n, actors, nops, faulty, two_pools, n2 = 0;
	static const int nq[] = { 1, 2, 2, 3, 3, 4, 4, 5, 6 };
	static const int nt[] = { 1, 2, 3, 4, 6, 8, 12, 16 };
	n = (tier == TIER_QUICK) ? nq[rng_below(r, 9)] : nt[rng_below(r, 8)];
	actors = 1 + (int)rng_below(r, 4);
	nops = (tier == TIER_QUICK) ? (int)rng_range(r, 3, 40) : (int)rng_range(r, 5, 90);
	faulty = rng_chance(r, 600);
	two_pools = rng_chance(r, 250);
	if (two_pools) n2 = 1 + (int)rng_below(r, 3);
	item_set(&p->cfg, "threads", n);
	item_set(&p->cfg, "threads2", n2);
	item_set(&p->cfg, "actors", actors);
	item_set(&p->cfg, "skipfirst", rng_chance(r, 200));
	item_set(&p->cfg, "attach", rng_chance(r, 500));
	item_set(&p->cfg, "pipe", rng_chance(r, 500) ? 4096 : 65536);
	item_set(&p->cfg, "bind", rng_chance(r, 500));
	item_set(&p->cfg, "cloexec", rng_chance(r, 500));
	item_set(&p->cfg, "waitstart", rng_chance(r, 500));
	item_set(&p->cfg, "faulty", faulty);
	/* optional: one thread whose creation fails for good */
	if (n > 1 && rng_chance(r, 150)) item_set(&p->cfg, "createfail", 1 + (long long)rng_below(r, (uint64_t)n));
	gen_sched(p, r, tier, 1);
	long long total_msgs = 0;
	for (int i = 0; i < nops; i++) {
		unsigned k = (unsigned)rng_below(r, 100);
		int pool = (two_pools && rng_chance(r, 300)) ? 1 : 0;
		int pn = pool ? n2 : n;
		op_t *op;
		if (k < 48) {
			op = plan_add_op(p, "send");
			item_set(&op->it, "actor", (long long)rng_below(r, (uint64_t)actors));
			item_set(&op->it, "pool", pool);
			item_set(&op->it, "dst", pick_dst(r, pn, 200));
			item_set(&op->it, "flags", pick_flags(r));
			if (rng_chance(r, 150)) item_set(&op->it, "work", (long long)rng_range(r, 1, 200000));
			if (faulty) maybe_fault(op, r, 200, 1);
		} else if (k < 78) {
			/* pool-internal sender: thread `via` of pool `vpool` performs the send */
			int vpool = (two_pools && rng_chance(r, 300)) ? 1 : 0;
			int vn = vpool ? n2 : n;
			int via = (int)rng_below(r, (uint64_t)vn);
			op = plan_add_op(p, "psend");
			item_set(&op->it, "actor", (long long)rng_below(r, (uint64_t)actors));
			item_set(&op->it, "vpool", vpool);
			item_set(&op->it, "via", via);
			item_set(&op->it, "pool", pool);
			/* bias towards self sends */
			if (pool == vpool && rng_chance(r, 400)) item_set(&op->it, "dst", via);
			else item_set(&op->it, "dst", pick_dst(r, pn, 200));
			item_set(&op->it, "flags", pick_flags(r));
			item_set(&op->it, "srcx", rng_chance(r, 300)); /* pass own tpt explicitly as src */
			item_set(&op->it, "burst", rng_chance(r, 200) ? (long long)rng_range(r, 2, 6) : 1);
			if (faulty) maybe_fault(op, r, 200, 2);
		} else if (k < 86) {
			op = plan_add_op(p, "stall");
			item_set(&op->it, "actor", (long long)rng_below(r, (uint64_t)actors));
			item_set(&op->it, "pool", pool);
			item_set(&op->it, "dst", (long long)rng_below(r, (uint64_t)pn));
			item_set(&op->it, "ns", (long long)rng_range(r, 1000, 50000000));
		} else if (k < 92) {
			op = plan_add_op(p, "wait");
			item_set(&op->it, "actor", (long long)rng_below(r, (uint64_t)actors));
			item_set(&op->it, "ns", (long long)rng_range(r, 1, 1000000));
		} else {
			int big = (tier == TIER_THOROUGH && rng_chance(r, 60));
			op = plan_add_op(p, "flood");
			item_set(&op->it, "actor", (long long)rng_below(r, (uint64_t)actors));
			item_set(&op->it, "pool", pool);
			item_set(&op->it, "dst", pick_dst(r, pn, 150));
			item_set(&op->it, "n", big ? (long long)rng_range(r, 1030, 2300) : (long long)rng_range(r, 5, 300));
			total_msgs += item_get(&op->it, "n", 0);
			item_set(&op->it, "flags", rng_chance(r, 300) ? TP_MSG_F_FAIL_DIRECT : 0);
			if (faulty) maybe_fault(op, r, 300, 20);
		}
	}
	if (rng_chance(r, 250)) {
		int ne = 1 + (int)rng_below(r, 3);
		for (int j = 0; j < ne && p->nops < PLAN_MAX_OPS; j++) {
			op_t *op = plan_add_op(p, "evt");
			item_set(&op->it, "actor", (long long)rng_below(r, (uint64_t)actors));
			item_set(&op->it, "pool", 0);
			item_set(&op->it, "dst", (long long)rng_below(r, (uint64_t)n));   /* a real thread: timers on the shared virtual thread are C06's subject */
			item_set(&op->it, "fl", rng_chance(r, 700) ? TP_F_ONESHOT : (rng_chance(r, 500) ? TP_F_DISPATCH : 0));
			item_set(&op->it, "us", (long long)rng_range(r, 1, 3000));
			if (p->nops > 1) { int at = (int)rng_below(r, (uint64_t)p->nops); op_t tmp = p->ops[at]; p->ops[at] = p->ops[p->nops - 1]; p->ops[p->nops - 1] = tmp; }
		}
	}
	/* the queue READ fails once in a while (EINTR, or EAGAIN as when another worker emptied the shared queue first):
	 * the reader must simply come back - nothing is lost, nothing is dropped from the event set */
	if (faulty && rng_chance(r, 350) && p->nops > 0) {
		op_t *op = &p->ops[rng_below(r, (uint64_t)p->nops)];
		item_t *f = op_add_fault(op, "qread");
		if (f) { item_set(f, "nth", (long long)rng_range(r, 1, 6)); item_set(f, "err", rng_chance(r, 500) ? EINTR : EAGAIN); item_set(f, "count", (long long)rng_range(r, 1, 2)); item_set(f, "anyop", 1); }
	}
	/* stray bytes in a queue (a fault of the environment, not of the senders): the reader must resynchronise */
	if (rng_chance(r, 140)) {
		int nj = 1 + (int)rng_below(r, 3);
		item_set(&p->cfg, "track", 1);
		for (int j = 0; j < nj && p->nops < PLAN_MAX_OPS; j++) {
			op_t *op = plan_add_op(p, "junk");
			int pool = (two_pools && rng_chance(r, 200)) ? 1 : 0;
			item_set(&op->it, "actor", (long long)rng_below(r, (uint64_t)actors));
			item_set(&op->it, "pool", pool);
			item_set(&op->it, "dst", pick_dst(r, pool ? n2 : n, 150));
			item_set(&op->it, "k", (long long)rng_range(r, 1, 31));
			item_set(&op->it, "how", (long long)rng_below(r, 2));
			/* somewhere inside the traffic: swap with a random earlier op */
			if (p->nops > 1) { int at = (int)rng_below(r, (uint64_t)p->nops); op_t tmp = p->ops[at]; p->ops[at] = p->ops[p->nops - 1]; p->ops[p->nops - 1] = tmp; }
		}
	}
	item_set(&p->sched, "budget", 80000 + 40 * total_msgs);
}

#define MAX_EVT 8
static tp_udata_t g_evt[MAX_EVT];
static int g_nevt, g_evt_fired, g_evt_deleted[MAX_EVT];
static void evt_cb(tp_event_p ev, tp_udata_p u) {
	(void)ev;
	g_evt_fired++;
	sim_probe("c05.timer_event_fired");
	/* a periodic one stops itself after a few rounds (once: on the virtual thread several workers serve it at a time) */
	if (g_evt_fired > 40 && !g_evt_deleted[u - g_evt]) { g_evt_deleted[u - g_evt] = 1; tpt_ev_del_args1(TP_EV_TIMER, u); }
}
/* ------------------------------------------------------------------ op interpreter */
static void c05_exec(const op_t *op, int opidx) {
	const item_t *it = &op->it;
	int pool = (int)item_get(it, "pool", 0);
	pool_w *pw = &W.pool[pool];
	tpt_p cur = tpt_get_current();
	if (!pw->tp) return;
	if (0 == strcmp(it->kind, "send") || 0 == strcmp(it->kind, "psend")) {
		int dst = (int)item_get(it, "dst", 0), burst = (int)item_get(it, "burst", 1);
		if (dst >= pw->n) dst = pw->n - 1;
		for (int b = 0; b < burst; b++) {
			msg_rec *m = world_new_msg(opidx, MK_PLAIN, pool, dst, (uint32_t)item_get(it, "flags", 0));
			m->stall_ns = (uint64_t)item_get(it, "work", 0);
			world_send(m, (item_get(it, "srcx", 0) && cur) ? cur : NULL);
			if (sim_violated()) return;
		}
	} else if (0 == strcmp(it->kind, "stall")) {
		int dst = (int)item_get(it, "dst", 0);
		if (dst >= pw->n) dst = pw->n - 1;
		msg_rec *m = world_new_msg(opidx, MK_STALL, pool, dst, 0);
		m->stall_ns = (uint64_t)item_get(it, "ns", 1000);
		world_send(m, NULL);
	} else if (0 == strcmp(it->kind, "flood")) {
		int dst = (int)item_get(it, "dst", 0), n = (int)item_get(it, "n", 10);
		if (dst >= pw->n) dst = pw->n - 1;
		for (int i = 0; i < n && !sim_violated(); i++) {
			msg_rec *m = world_new_msg(opidx, MK_PLAIN, pool, dst, (uint32_t)item_get(it, "flags", 0));
			world_send(m, NULL);
		}
	} else if (0 == strcmp(it->kind, "evt")) {
		/* the threads do not only serve messages: a one-shot (or periodic) timer on the destination thread in the
		 * middle of the traffic. What the event does is C06's business; here it only has to leave the queue alone. */
		int dst = (int)item_get(it, "dst", 0);
		if (dst >= pw->n) dst = pw->n - 1;
		if (dst < 0) dst = 0;
		if (g_nevt < MAX_EVT && !pw->never_started[dst < 0 ? 0 : dst]) {
			tp_udata_p u = &g_evt[g_nevt++];
			memset(u, 0, sizeof(*u));
			u->cb_func = evt_cb;
			u->ident = (uintptr_t)(0x5000 + g_nevt);
			(void)tpt_ev_add_args(dst < 0 ? pw->pvt : pw->thr[dst], TP_EV_TIMER, (uint16_t)item_get(it, "fl", TP_F_ONESHOT), TP_FF_T_USEC, (uint64_t)item_get(it, "us", 100), u);
			sim_probe("c05.timer_event_on_a_message_thread");
		}
	} else if (0 == strcmp(it->kind, "junk")) {
		int dst = (int)item_get(it, "dst", 0);
		if (dst >= pw->n) dst = pw->n - 1;
		world_queue_junk(pool, dst, (int)item_get(it, "k", 8), (int)item_get(it, "how", 0));
	} else if (0 == strcmp(it->kind, "wait")) {
		sim_sleep_ns((uint64_t)item_get(it, "ns", 1000), "actor.wait");
	}
}

static void *actor_main(void *arg) {
	int a = (int)(intptr_t)arg;
	const plan_t *p = W.plan;
	for (int i = 0; i < p->nops && !sim_violated(); i++) {
		const op_t *op = &p->ops[i];
		if ((int)item_get(&op->it, "actor", 0) != a) continue;
		sim_set_op(i);
		if (0 == strcmp(op->it.kind, "psend")) {
			int vpool = (int)item_get(&op->it, "vpool", 0), via = (int)item_get(&op->it, "via", 0);
			pool_w *vp = &W.pool[vpool];
			if (!vp->tp) continue;
			if (via >= vp->n) via = vp->n - 1;
			world_send_carrier(i, vpool, via);
		} else c05_exec(op, i);
		sim_yield("actor.next");
	}
	return NULL;
}

static void c05_pre(const plan_t *p) {
	world_reset(p);
	sim_knobs.pipe_size = (int)item_get(&p->cfg, "pipe", 65536);
	sim_knobs.ncpu = 4;
	world_op_exec = c05_exec;
	g_nevt = 0; g_evt_fired = 0; memset(g_evt_deleted, 0, sizeof(g_evt_deleted));
}

static void *racer_main(void *arg);
static int g_racers_stop;
/* an application thread that serves as worker 0 for a while (tp_thread_attach_first) */
static int g_att_fiber, g_att_rc;
static void *attacher_main(void *arg) {
	pool_w *pw = &W.pool[0];
	(void)arg;
	g_att_rc = tp_thread_attach_first(pw->tp);
	/* back in application code: this thread is no pool thread any more, whatever it was while it served */
	if (0 == g_att_rc && tpt_get_current() != NULL)
		sim_violation("thread-identity-stale", "tp_thread_attach_first() returned, but tpt_get_current() still answers a pool thread for the calling application thread: its self-direct sends and deadlock guards act on a thread it no longer is");
	return NULL;
}
static int pred_thr0_running(void *arg) { pool_w *pw = arg; return tpt_is_running(pw->thr[0]) || sim_fiber_done(g_att_fiber); }
static void *c05_root(void *arg) {
	const plan_t *p = arg;
	int n = (int)item_get(&p->cfg, "threads", 2), n2 = (int)item_get(&p->cfg, "threads2", 0);
	int actors = (int)item_get(&p->cfg, "actors", 1), ids[MAX_ACTORS];
	uint32_t fl = (item_get(&p->cfg, "bind", 0) ? TP_S_F_BIND2CPU : 0) | (item_get(&p->cfg, "cloexec", 0) ? TP_S_F_CLOEXEC : 0);
	if (n < 1) n = 1; if (n > MAX_THR) n = MAX_THR;
	if (n2 > MAX_THR) n2 = MAX_THR;
	if (actors < 1) actors = 1; if (actors > MAX_ACTORS) actors = MAX_ACTORS;
	sim_set_op(-2); /* setup: no planned fault is attributed here */
	if (0 != world_create_pool(0, n, fl, 1)) { sim_violation("setup-failed", "tp_create failed in a fault-free setup"); return NULL; }
	if (n2 > 0 && 0 != world_create_pool(1, n2, fl, 1)) { sim_violation("setup-failed", "tp_create (second pool) failed"); return NULL; }
	{
		/* a thread whose creation fails for good: pthread_create returns EPERM once */
		int cf = (int)item_get(&p->cfg, "createfail", 0);
		extern void sim_fault_add(int op, const char *site, int nth, int count, int err);
		if (cf > 0) sim_fault_add(-2, "pthread_create", cf, 1, EPERM);
	}
	if (item_get(&p->cfg, "track", 0) || 1) { world_track_queues(0); if (n2 > 0) world_track_queues(1); }
	world_start_threads(0, (int)item_get(&p->cfg, "skipfirst", 0));
	if (n2 > 0) world_start_threads(1, 0);
	g_att_fiber = -1;
	if (item_get(&p->cfg, "skipfirst", 0) && item_get(&p->cfg, "attach", 0) && item_get(&p->cfg, "lateprobe", 1)) {
		g_att_fiber = sim_spawn(attacher_main, NULL, "attacher");
		sim_block(pred_thr0_running, &W.pool[0], 0, "c05.wait_attached");
		if (tpt_is_running(W.pool[0].thr[0])) { W.pool[0].never_started[0] = 0; sim_probe("c05.worker0_is_an_attached_thread"); }
	}
	if (item_get(&p->cfg, "waitstart", 0)) { world_wait_threads_running(0); if (n2 > 0) world_wait_threads_running(1); }
	else sim_probe("c05.traffic_during_startup");
	for (int a = 0; a < actors; a++) { char nm[16]; snprintf(nm, sizeof(nm), "actor%d", a); ids[a] = sim_spawn(actor_main, (void *)(intptr_t)a, nm); }
	for (int a = 0; a < actors; a++) sim_join_fiber(ids[a]);
	/* quiescence: every worker parked, nothing pending */
	sim_fair_finish();
	sim_wait_idle(3600ull * 1000000000ull);
	world_check_messages(1);
	if (W.nmsgs > 2) sim_mark_interesting();
	W.teardown = 1;
	if (sim_violated() || !item_get(&p->cfg, "lateprobe", 1)) return NULL;
	/* after the traffic: a send to a thread that has visibly left its loop (its stop hook is running or done) must
	 * be refused (or, with FORCE, run directly) - it can never be delivered */
	{
		pool_w *pw = &W.pool[0];
		int probed[MAX_THR] = { 0 }, left;
		W.slow_stop_hook_ns = 200000;
		W.stop_hook_selfsend = 1 + (int)(p->seed & 2);
		int racers[2], nr = (int)((p->seed >> 3) % 3);   /* 0..2 senders still busy */
		g_racers_stop = 0;
		for (int a = 0; a < nr; a++) { char nm[16]; snprintf(nm, sizeof(nm), "racer%d", a); racers[a] = sim_spawn(racer_main, (void *)(intptr_t)a, nm); }
		if (nr) sim_yield("c05.racers_started");
		tp_shutdown(pw->tp);
		for (int round = 0; round < 400 && !sim_violated(); round++) {
			left = 0;
			for (int i = 0; i < pw->n; i++) {
				msg_rec *m;
				int rc;
				uint32_t fl = (i & 1) ? TP_MSG_F_FORCE : 0;
				if (pw->never_started[i] || probed[i]) continue;
				if (pw->stop_cnt[i] == 0) { left++; continue; }
				probed[i] = 1;
				m = world_new_msg(-1, MK_PLAIN, 0, i, fl);
				m->sent = 1; m->send_fiber = sim_self(); m->in_send = 1; m->dst_running = 0; m->qfail_before = sim_qwrite_fails();
				rc = tpt_msg_send(pw->thr[i], NULL, fl, world_msg_cb, m);
				m->in_send = 0; m->rc = rc;
				sim_probe("c05.send_to_stopping_thread");
				if (fl & TP_MSG_F_FORCE) {
					if (0 != rc || m->exec_count != 1) { sim_violation("msg-accepted-after-stop", "FORCE send to thread %d whose stop hook had started returned %d and ran the callback %d time(s) (expected: direct call, 0)", i, rc, m->exec_count); break; }
				} else if (0 == rc) {
					sim_violation("msg-accepted-after-stop", "send to thread %d, which had already left its event loop (stop hook running), returned 0: the message can never be delivered", i);
					break;
				}
			}
			if (!left) break;
			sim_sleep_ns(20000, "c05.late_probe");
		}
		g_racers_stop = 1;
		for (int a = 0; a < nr; a++) sim_join_fiber(racers[a]);
		if (g_att_fiber >= 0) sim_join_fiber(g_att_fiber);   /* released by the shutdown */
		/* every worker has left its loop: what was reported as failed must not have run, not even later */
		for (int i = 0; i < W.nmsgs && !sim_violated(); i++) {
			msg_rec *m = &W.msgs[i];
			if (m->race && m->sent && m->rc != 0 && m->exec_count != 0)
				sim_violation("msg-fail-but-ran", "send during shutdown (flags %x, thread %d) returned %d, yet the callback ran %d time(s)", m->flags, m->dst, m->rc, m->exec_count);
			/* accepted, and a worker has READ the packet: then it runs - also when the worker was told to stop by an
			 * earlier packet of the same batch (only what is still in the pipe when the worker leaves is nobody's) */
			if (m->sent && 0 == m->rc && 0 == m->exec_count && !m->exec_sync && world_msg_was_read(m))
				sim_violation("msg-read-but-dropped", "message %d (flags %x, thread %d) was accepted and its packet was read from the queue, but the callback never ran", m->id, m->flags, m->dst);
			if (m->race && m->exec_count > 1)
				sim_violation("msg-duplicate", "message %d sent during shutdown ran %d times", m->id, m->exec_count);
		}
	}
	return NULL;
}

static void c05_post(const plan_t *p) { (void)p; }

/* Senders that are still at work while the pool shuts down, every queue write of theirs failing like a write to a
 * queue that is being torn down. Whether a send that was ACCEPTED at that moment is still served is nobody's promise;
 * what is promised still holds: a failed send never runs the callback - unless a direct-call option applies, and
 * then it runs it once, at once, and reports success. */
static void *racer_main(void *arg) {
	int id = (int)(intptr_t)arg;
	pool_w *pw = &W.pool[0];
	unsigned x = (unsigned)(W.plan->seed >> 7) * 2654435761u + (unsigned)id * 97u;
	extern void sim_fault_add(int op, const char *site, int nth, int count, int err);
	sim_set_op(-7 - id);
	if (0 == (id & 1)) sim_fault_add(-7 - id, "qwrite", 1 + (int)(x % 3), 100000, (x & 8) ? EPIPE : EBADF);   /* the other racer's writes succeed */
	for (int it = 0; it < 60 && !g_racers_stop && !sim_violated() && W.nmsgs < MAX_MSG - 8; it++) {
		static const uint32_t fls[] = { TP_MSG_F_FAIL_DIRECT, TP_MSG_F_FAIL_DIRECT, TP_MSG_F_FAIL_DIRECT | TP_MSG_F_SELF_DIRECT, 0, TP_MSG_F_FAIL_DIRECT | TP_MSG_F_FORCE };
		uint32_t fl;
		int dst, rc, qf;
		msg_rec *m;
		x = x * 1103515245u + 12345u;
		fl = fls[(x >> 16) % 5];
		dst = (int)((x >> 20) % (unsigned)pw->n);
		if (pw->never_started[dst]) continue;
		m = world_new_msg(-1, MK_PLAIN, 0, dst, fl);
		m->race = 1; m->sent = 1; m->send_fiber = sim_self(); m->sender_tpt = NULL; m->dst_running = 1; m->in_send = 1; m->qfail_before = sim_qwrite_fails();
		m->invoke_seq = sim_evseq();
		rc = tpt_msg_send(pw->thr[dst], NULL, fl, world_msg_cb, m);
		m->in_send = 0; m->rc = rc; m->return_seq = sim_evseq();
		qf = sim_qwrite_fails() - m->qfail_before;
		sim_probe("c05.send_during_shutdown");
		if (qf > 0 && (fl & TP_MSG_F_FAIL_DIRECT)) {
			sim_probe("c05.fail_direct_during_shutdown");
			if (0 != rc || m->exec_count != 1 || !m->exec_sync) {
				sim_violation("msg-fail-direct-skipped", "send with TP_MSG_F_FAIL_DIRECT (flags %x) to thread %d while the pool shuts down: the queue write failed, the call returned %d and ran the callback %d time(s) (expected: direct call, 0)", fl, dst, rc, m->exec_count);
				break;
			}
		} else if (0 != rc && m->exec_count != 0) {
			sim_violation("msg-fail-but-ran", "send during shutdown returned %d but the callback ran", rc);
			break;
		}
		sim_yield("racer.next");
	}
	return NULL;
}

const harness_t h_c05 = { "C05", c05_gen, c05_pre, c05_root, c05_post };
