#!/usr/bin/env python3
"""Build the simulation worker from /repo's CURRENT working tree + /verif/sim + /verif/harness.

variant: 'plain' (gcc -O1 -g) or 'asan' (clang -O1 -g -fsanitize=address,undefined)
msgcount: optional override of the message read batch (guarded knob in threadpool_msg_sys.c)

Seam = symbol renaming scoped to the repo objects: every libc/pthread import listed in
seams/redefine.list is renamed to sim_<name> with objcopy; an import that is neither renamed,
allow-listed (seams/passthrough.list), nor defined by another repo object / harness stub makes
the build fail, so a forgotten source of nondeterminism cannot creep in silently.
"""
import hashlib, os, subprocess, sys, concurrent.futures, fcntl

VERIF = os.path.dirname(os.path.dirname(os.path.abspath(__file__)))
REPO = os.environ.get("LCB_REPO", "/repo")

REPO_SRCS = [
    "src/threadpool/threadpool.c", "src/threadpool/threadpool_msg_sys.c", "src/threadpool/threadpool_task.c",
    "src/net/socket.c", "src/net/socket_address.c", "src/net/socket_options.c",
    "src/utils/ini.c", "src/utils/buf_str.c", "src/utils/ring_buffer.c",
]
REPO_DEFS = ("-DLINUX -D_GNU_SOURCE -D__USE_GNU=1 -DHAVE_PIPE2 -DHAVE_ACCEPT4 -DHAVE_EXPLICIT_BZERO -DHAVE_MEMMEM "
             "-DHAVE_MEMRCHR -DHAVE_REALLOCARRAY -DHAVE_STRNCASECMP -DHAVE_PTHREAD_SETNAME_NP -DHAVE_SOCK_CLOEXEC "
             "-DHAVE_SOCK_NONBLOCK -DHAVE_POSIX_SPAWN_FILE_ACTIONS_ADDCLOSEFROM_NP -DLIBLCB_VERIF -U_FORTIFY_SOURCE").split()

def sh(cmd, **kw):
    r = subprocess.run(cmd, stdout=subprocess.PIPE, stderr=subprocess.STDOUT, text=True, **kw)
    if r.returncode != 0:
        sys.stderr.write("BUILD FAILED: %s\n%s\n" % (" ".join(cmd), r.stdout))
        raise SystemExit(2)
    return r.stdout

def words(path):
    return open(path).read().split()

def file_hash(paths, extra=""):
    h = hashlib.sha256(extra.encode())
    for p in sorted(paths):
        h.update(p.encode())
        with open(p, "rb") as f:
            h.update(f.read())
    return h.hexdigest()

def all_inputs():
    ins = []
    for root in (os.path.join(REPO, "include"), os.path.join(REPO, "src")):
        for d, _, fs in os.walk(root):
            for f in fs:
                if f.endswith((".c", ".h")):
                    ins.append(os.path.join(d, f))
    for sub in ("sim", "harness", "seams"):
        for f in os.listdir(os.path.join(VERIF, sub)):
            ins.append(os.path.join(VERIF, sub, f))
    ins.append(os.path.abspath(__file__))
    return ins

def build(outdir, variant="plain", msgcount=None, quiet=True):
    os.makedirs(outdir, exist_ok=True)
    lock = open(os.path.join(outdir, ".lock"), "w")
    fcntl.flock(lock, fcntl.LOCK_EX)
    try:
        return _build(outdir, variant, msgcount, quiet)
    finally:
        fcntl.flock(lock, fcntl.LOCK_UN)
        lock.close()

def _build(outdir, variant, msgcount, quiet):
    exe = os.path.join(outdir, "vworker")
    stamp_path = os.path.join(outdir, "stamp")
    stamp = file_hash(all_inputs(), "%s|%s" % (variant, msgcount))
    if os.path.exists(exe) and os.path.exists(stamp_path) and open(stamp_path).read() == stamp:
        return exe
    if variant == "asan":
        cc = ["clang", "-O1", "-g", "-fno-omit-frame-pointer", "-fsanitize=address,undefined", "-fno-sanitize=alignment",
              "-fsanitize-recover=undefined"]
    else:
        cc = ["gcc", "-O1", "-g", "-fno-omit-frame-pointer"]
    inc = ["-I" + os.path.join(REPO, "include"), "-I" + os.path.join(VERIF, "sim"), "-I" + os.path.join(VERIF, "harness")]
    jobs = []
    repo_objs = []
    for s in REPO_SRCS:
        o = os.path.join(outdir, "repo_" + os.path.basename(s)[:-2] + ".o")
        extra = []
        if msgcount and s.endswith("threadpool_msg_sys.c"):
            extra = ["-DLIBLCB_VERIF_MSG_COUNT_TO_READ=%d" % msgcount]
        jobs.append(cc + ["-w", "-std=gnu11"] + REPO_DEFS + extra + inc[:1] + ["-c", os.path.join(REPO, s), "-o", o])
        repo_objs.append(o)
    own_objs = []
    for sub in ("sim", "harness"):
        for f in sorted(os.listdir(os.path.join(VERIF, sub))):
            if not f.endswith(".c"):
                continue
            o = os.path.join(outdir, sub + "_" + f[:-2] + ".o")
            jobs.append(cc + ["-std=gnu11", "-Wall", "-Wextra", "-Wno-unused-parameter", "-Wno-misleading-indentation", "-D_GNU_SOURCE", "-DLINUX", "-D__USE_GNU=1",
                              "-DHAVE_ACCEPT4", "-DHAVE_PIPE2", "-DHAVE_EXPLICIT_BZERO", "-DHAVE_MEMMEM", "-DHAVE_MEMRCHR", "-DHAVE_REALLOCARRAY", "-DHAVE_STRNCASECMP",
                              "-DHAVE_PTHREAD_SETNAME_NP", "-DHAVE_SOCK_CLOEXEC", "-DHAVE_SOCK_NONBLOCK"] + inc + ["-c", os.path.join(VERIF, sub, f), "-o", o])
            own_objs.append(o)
    with concurrent.futures.ThreadPoolExecutor(max_workers=16) as ex:
        outs = list(ex.map(sh, jobs))
    if not quiet:
        for o in outs:
            if o.strip():
                sys.stderr.write(o)
    # seam renaming on the repo objects only
    ren = words(os.path.join(VERIF, "seams", "redefine.list"))
    allow = set(words(os.path.join(VERIF, "seams", "passthrough.list")))
    symfile = os.path.join(outdir, "redefine.syms")
    with open(symfile, "w") as f:
        for s in ren:
            f.write("%s sim_%s\n" % (s, s))
    defined = set()
    undefined = {}
    for o in repo_objs + own_objs:
        for line in sh(["nm", "-g", o]).splitlines():
            parts = line.split()
            if len(parts) == 2 and parts[0] == "U":
                if o in repo_objs:
                    undefined.setdefault(parts[1], o)
            elif len(parts) == 3 and parts[1] in "TDBRVWCw":
                defined.add(parts[2])
    bad = []
    for sym, o in sorted(undefined.items()):
        if sym in ren or sym in allow or sym in defined:
            continue
        if sym.startswith(("__asan", "__ubsan", "__sanitizer", "__tsan", "__msan")):
            continue
        bad.append("%s (from %s)" % (sym, os.path.basename(o)))
    if bad:
        sys.stderr.write("BUILD FAILED: repo objects import symbols that are neither seams nor allow-listed:\n  " + "\n  ".join(bad) +
                         "\nadd a seam (seams/redefine.list + sim/seams.c) or allow-list it (seams/passthrough.list)\n")
        raise SystemExit(2)
    for o in repo_objs:
        sh(["objcopy", "--redefine-syms=" + symfile, o])
    sh(cc + ["-o", exe] + own_objs + repo_objs + ["-lm"])
    with open(stamp_path, "w") as f:
        f.write(stamp)
    return exe

if __name__ == "__main__":
    out = sys.argv[1] if len(sys.argv) > 1 else os.path.join(VERIF, "build", "plain")
    var = sys.argv[2] if len(sys.argv) > 2 else "plain"
    mc = int(sys.argv[3]) if len(sys.argv) > 3 else None
    print(build(out, var, mc, quiet=False))
