#!/usr/bin/env python3
"""Confirm a seeded change in a scratch worktree and store it under /verif/seeded/<id>/.

  seed_verify.py <PROP> <srcdir> <name>        e.g. seed_verify.py C05 /tmp/mut-C05/m1 C05-m1

Confirms, in a scratch git worktree of /repo's HEAD (outside /repo and /verif, removed afterwards):
  * the demonstration passes on the unchanged tree,
  * the change applies (rebased onto the current HEAD if the original diff was made before hooks/fixes),
  * the library still builds and the existing ctest suite passes with it,
  * the demonstration fails with it.
Then (second phase, --check) applies it to /repo itself, runs the property's quick check, records what the
check reported, and undoes it straight afterwards.

Note: after a `fix:` commit that shifts lines in a file, re-check the stored changes of that file AND look where
they land: `git apply` relocates a hunk to any place whose context matches (ring_buffer.c has two identical wrap
branches; four C19 patches moved into the unused twin and "were not caught" - they were no longer there). Rebase such
a patch by a three-way merge (base = meta.repo_head, see DESIGN section 13) and keep the original as patch.orig.diff.
"""
import json, os, shutil, subprocess, sys, time

VERIF = os.path.dirname(os.path.dirname(os.path.abspath(__file__)))

ENV = dict(os.environ)
def sh(cmd, cwd=None, timeout=1800):
    try:
        r = subprocess.run(cmd, cwd=cwd, shell=isinstance(cmd, str), stdout=subprocess.PIPE, stderr=subprocess.STDOUT, text=True, timeout=timeout, env=ENV)
        return r.returncode, r.stdout
    except subprocess.TimeoutExpired as e:
        return 124, (e.stdout or "") + "\nTIMEOUT"

def main():
    if sys.argv[1] == "--check":
        return check_phase(sys.argv[2])
    prop, src, name = sys.argv[1:4]
    out = os.path.join(VERIF, "seeded", name)
    wt = "/tmp/sv-" + name
    for k in ("WT", "SRC", "TREE", "LIBLCB", "LIBLCB_TREE", "REPO"): ENV[k] = wt   # some demo build scripts take the tree from the environment
    demo = "/tmp/svd-" + name
    meta = {"id": name, "property": prop, "source": "independent sub-agent given only the property text and a scratch worktree",
            "verified_at": time.strftime("%Y-%m-%dT%H:%M:%SZ", time.gmtime()), "steps": {}}
    shutil.rmtree(demo, ignore_errors=True); os.makedirs(demo)
    for f in ["demo.c", "build.sh", "README.md"] + [x for x in os.listdir(src) if x.endswith(".h")]:
        if os.path.exists(os.path.join(src, f)): shutil.copy(os.path.join(src, f), demo)
    sh(["git", "-C", "/repo", "worktree", "remove", "--force", wt]); shutil.rmtree(wt, ignore_errors=True)
    rc, o = sh(["git", "-C", "/repo", "worktree", "add", "--detach", wt, "HEAD"])
    if rc: print(o); return 2
    try:
        head = sh(["git", "-C", wt, "rev-parse", "--short", "HEAD"])[1].strip()
        meta["repo_head"] = head
        # 1. demo on the unchanged tree
        rc, o = sh(["sh", os.path.join(demo, "build.sh"), wt]); meta["steps"]["demo_build_clean"] = rc
        rc, o = sh([os.path.join(demo, "demo")], cwd=demo, timeout=600); meta["steps"]["demo_clean_exit"] = rc
        meta["steps"]["demo_clean_tail"] = o.strip().splitlines()[-2:]
        # 2. apply
        ported = os.path.join(src, "patch.ported.diff")
        if os.path.exists(ported):
            rc, o = sh(["git", "-C", wt, "apply", ported]); meta["steps"]["apply"] = "ported diff, rc=%d" % rc
        else:
            rc, o = sh("patch -s -p1 -F3 --no-backup-if-mismatch -d %s < %s" % (wt, os.path.join(src, "patch.diff"))); meta["steps"]["apply"] = "original diff with fuzz, rc=%d" % rc
        if rc:
            meta["status"] = "does-not-apply"; meta["steps"]["apply_output"] = o[-500:]
        else:
            rc, diff = sh(["git", "-C", wt, "diff"])
            # 3. demo with the change
            rc, o = sh(["sh", os.path.join(demo, "build.sh"), wt]); meta["steps"]["demo_build_changed"] = rc
            rc, o = sh([os.path.join(demo, "demo")], cwd=demo, timeout=600); meta["steps"]["demo_changed_exit"] = rc
            meta["steps"]["demo_changed_tail"] = o.strip().splitlines()[-2:]
            # 4. existing suite
            rc, o = sh("cmake -G Ninja -B %s/_build -S %s -DENABLE_LIBLCB_TESTS=1 -DCMAKE_BUILD_TYPE=RelWithDebInfo >/dev/null 2>&1 && cmake --build %s/_build 2>&1 | tail -2 && ctest --test-dir %s/_build -j8 --timeout 900 2>&1 | tail -4" % (wt, wt, wt, wt), timeout=3000)
            meta["steps"]["suite_rc"] = rc
            meta["steps"]["suite_tail"] = o.strip().splitlines()[-3:]
            suite_ok = (rc == 0 and "100% tests passed" in o)
            ok = (meta["steps"]["demo_clean_exit"] == 0 and meta["steps"]["demo_changed_exit"] != 0 and suite_ok)
            meta["status"] = "confirmed" if ok else "rejected"
            if ok:
                os.makedirs(out, exist_ok=True)
                open(os.path.join(out, "patch.diff"), "w").write(diff)
                for f in ["demo.c", "build.sh", "README.md"] + [x for x in os.listdir(demo) if x.endswith(".h")]:
                    if os.path.exists(os.path.join(demo, f)): shutil.copy(os.path.join(demo, f), out)
        rd = os.path.join(src, "README.md")
        meta["needs_to_manifest"] = ""
        if os.path.exists(rd):
            meta["agent_readme_head"] = open(rd).read()[:1500]
        meta["what_i_ran"] = ["sh build.sh <scratch worktree of /repo HEAD> && ./demo   (unchanged tree: exit 0)",
                              "apply patch.diff in the scratch worktree; sh build.sh; ./demo   (changed tree: exit != 0)",
                              "cmake -G Ninja -B _build -S . -DENABLE_LIBLCB_TESTS=1 && cmake --build _build && ctest --test-dir _build -j8   (changed tree: 100% passed)"]
        os.makedirs(out if meta.get("status") == "confirmed" else os.path.join(VERIF, "seeded", "_rejected"), exist_ok=True)
        mp = os.path.join(out, "meta.json") if meta.get("status") == "confirmed" else os.path.join(VERIF, "seeded", "_rejected", name + ".json")
        json.dump(meta, open(mp, "w"), indent=1)
        print(name, meta.get("status"), meta["steps"].get("demo_clean_exit"), meta["steps"].get("demo_changed_exit"), meta["steps"].get("suite_tail"))
    finally:
        sh(["git", "-C", "/repo", "worktree", "remove", "--force", wt]); shutil.rmtree(wt, ignore_errors=True)
        shutil.rmtree(demo, ignore_errors=True)
    return 0

def check_phase(name):
    """apply the stored patch to /repo, run the property's quick check, undo"""
    d = os.path.join(VERIF, "seeded", name)
    meta = json.load(open(os.path.join(d, "meta.json")))
    prop = meta["property"]
    rc, o = sh(["git", "-C", "/repo", "status", "--porcelain", "--untracked-files=no"])
    if o.strip(): print("refusing: /repo has uncommitted changes"); return 2
    rc, o = sh(["git", "-C", "/repo", "apply", os.path.join(d, "patch.diff")])
    if rc: print("apply failed", o); return 2
    try:
        t0 = time.time()
        rc, o = sh(["python3", os.path.join(VERIF, "bin", "vcheck"), prop, "--tier", "quick"], cwd=VERIF, timeout=1500)
        lines = [l for l in o.splitlines() if l.startswith("VIOLATION") or l.strip().startswith("class=") or l.startswith("INTERNAL")]
        meta["check"] = {"cmd": "git -C /repo apply seeded/%s/patch.diff && python3 bin/vcheck %s --tier quick ; git -C /repo checkout -- ." % (name, prop),
                         "exit": rc, "wall_s": round(time.time() - t0, 1), "reported": lines[:6], "caught": rc == 1}
        json.dump(meta, open(os.path.join(d, "meta.json"), "w"), indent=1)
        print(name, "check exit", rc, lines[:2])
    finally:
        sh(["git", "-C", "/repo", "checkout", "--", "."])
        for root in ("/repo/src", "/repo/include"):
            sh("find %s -name '*.orig' -delete -o -name '*.rej' -delete" % root)
    return 0

if __name__ == "__main__":
    sys.exit(main())
